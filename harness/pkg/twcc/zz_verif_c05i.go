//go:build verif

package twcc

import (
	"time"

	"github.com/pion/interceptor"
	"github.com/pion/rtcp"

	vr "github.com/pion/interceptor/internal/verifrt"
)

// HC05Interceptor: the TWCC sender interceptor end to end: packets carrying the transport-wide
// sequence extension are read through the bound reader (one without the extension, one failing read),
// a harness-fired tick makes the loop write feedback: it reports exactly the numbers that were read,
// in one well-formed packet, with non-decreasing arrival times; a second tick with nothing new writes nothing.
func HC05Interceptor() {
	f, err := NewSenderInterceptor(SendInterval(time.Second))
	vr.Assert(err == nil, "factory")
	it, err := f.NewInterceptor("")
	vr.Assert(err == nil, "interceptor")
	var fbs [4]*rtcp.TransportLayerCC
	nfb := 0
	it.BindRTCPWriter(interceptor.RTCPWriterFunc(func(pkts []rtcp.Packet, _ interceptor.Attributes) (int, error) {
		for _, p := range pkts {
			fb, ok := p.(*rtcp.TransportLayerCC)
			vr.Assert(ok, "TWCC sender writes transport-wide-CC feedback only")
			if ok && nfb < len(fbs) {
				fbs[nfb] = fb
			}
			nfb++
		}
		return 0, nil
	}))
	vr.Yield()
	var seq uint16
	mode := 0 // 0: with extension, 1: without, 2: failing read
	rd := it.BindRemoteStream(&interceptor.StreamInfo{SSRC: 0x2222, RTPHeaderExtensions: []interceptor.RTPHeaderExtension{{URI: transportCCURI, ID: 5}},
		RTCPFeedback: []interceptor.RTCPFeedback{{Type: "transport-cc"}}},
		interceptor.RTPReaderFunc(func(b []byte, at interceptor.Attributes) (int, interceptor.Attributes, error) {
			switch mode {
			case 2:
				return 0, nil, errClosed
			case 1:
				pkt := [12]byte{0x80, 96, 0, 1, 0, 0, 0, 1, 0, 0, 0x22, 0x22}
				copy(b, pkt[:])
				return 12, at, nil
			}
			pkt := [20]byte{0x90, 96, 0, 7, 0, 0, 0, 1, 0, 0, 0x22, 0x22, 0xBE, 0xDE, 0, 1, 0x51, byte(seq >> 8), byte(seq), 0}
			copy(b, pkt[:])
			return 20, at, nil
		}))
	bases := [2]uint16{200, 65534}
	base := bases[vr.Concretize(vr.NondetInt(0, 1))]
	buf := make([]byte, 64)
	var got [5]bool
	for i := 0; i < 5; i++ {
		m := vr.Concretize(vr.NondetInt(0, 2))
		if i == 0 {
			m = 0
		}
		mode, seq = m, base+uint16(i)
		_, _, rerr := rd.Read(buf, nil)
		if m == 2 {
			vr.Assert(rerr != nil, "read error returned")
		} else {
			vr.Assert(rerr == nil, "read passes through")
		}
		got[i] = m == 0
		vr.Yield()
	}
	last := 0
	for i := 0; i < 5; i++ {
		if got[i] {
			last = i
		}
	}
	vr.FireTickers(time.Unix(1800000000, 0))
	vr.Yield()
	vr.Cover("feedback written")
	vr.Assert(nfb == 1, "one feedback packet for the recorded range")
	fb := fbs[0]
	vr.Assert(fb.MediaSSRC == 0x2222 && fb.BaseSequenceNumber == base && int(fb.PacketStatusCount) == last+1, "feedback covers base .. highest received")
	var st [40]uint16
	n := c05expand(fb, &st)
	vr.Assert(n >= last+1, "chunks cover the status count")
	nd := 0
	for i := 0; i <= last; i++ {
		if got[i] {
			vr.Assert(st[i] != rtcp.TypeTCCPacketNotReceived, "a packet that was read with the extension is reported received")
			nd++
		} else {
			vr.Assert(st[i] == rtcp.TypeTCCPacketNotReceived, "a packet without the extension or whose read failed is not accounted")
		}
	}
	vr.Assert(len(fb.RecvDeltas) == nd, "one delta per received status")
	for i := 1; i < len(fb.RecvDeltas); i++ {
		vr.Assert(fb.RecvDeltas[i].Delta >= 0, "arrival times of in-order packets do not go backwards")
	}
	vr.FireTickers(time.Unix(1800000001, 0))
	vr.Yield()
	vr.Assert(nfb == 1, "nothing new: no further feedback")
	vr.Assert(it.Close() == nil, "close")
	vr.Assert(vr.LiveThreads() == 0, "loop finished")
}
