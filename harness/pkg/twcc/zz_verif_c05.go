//go:build verif

package twcc

import (
	"github.com/pion/rtcp"

	vr "github.com/pion/interceptor/internal/verifrt"
)

// c05expand: independent decoder of the chunk list into one status per sequence number.
func c05expand(fb *rtcp.TransportLayerCC, out *[40]uint16) int {
	n := 0
	for _, ch := range fb.PacketChunks {
		switch c := ch.(type) {
		case *rtcp.RunLengthChunk:
			for i := 0; i < int(c.RunLength); i++ {
				if n < len(out) {
					out[n] = c.PacketStatusSymbol
				}
				n++
			}
		case *rtcp.StatusVectorChunk:
			for _, s := range c.SymbolList {
				if n < len(out) {
					out[n] = s
				}
				n++
			}
		}
	}
	return n
}

// HC05Packer: feedback/chunk packer driven with a status sequence (gaps of not-received, small and
// large deltas incl. negative), decoded independently; then the real rtcp Marshal/Unmarshal round trip.
func HC05Packer() {
	steps := vr.Param("steps", 4)
	base := vr.NondetU16()
	t0s := [3]int64{0, 64000*1000 + 63999, 1<<40 + 12345}
	t0 := t0s[vr.Concretize(vr.NondetInt(0, 2))]
	fb := newFeedback(1, 2, uint8(vr.NondetInt(0, 255)))
	fb.setBase(base, t0)
	var want [40]uint16
	var arrival [40]int64
	nw := 0
	now := t0
	refLast := t0 / 64000 * 64000
	seq := base
	for st := 0; st < steps; st++ {
		gap := 2 * vr.Concretize(vr.NondetInt(0, 1))
		if st == 0 {
			gap = 0 // the base packet is the first received one
		}
		for g := 0; g < gap; g++ {
			want[nw] = rtcp.TypeTCCPacketNotReceived
			nw++
			seq++
		}
		// arrival-time steps are taken from a table of boundary values (rounding to 250 us units, the
		// small/large delta border at 255 units, the int16 limits, negative deltas); per path they are
		// concrete, so the 64-bit divide/multiply chain of the packer folds to constants.
		table := [12]int64{0, 125, 63875, 64000, -126, 8200000, 124, 8191874, -8191874, 63624, 63876, 12000000}
		d := table[vr.Concretize(vr.NondetInt(0, vr.Param("dchoices", 10)-1))]
		if st == 0 {
			first := [3]int64{0, 125, 63999} // first packet: within the 64 ms reference rounding
			d = first[vr.Concretize(vr.NondetInt(0, 2))]
		}
		now += d
		// reference: the delta to the packer's running time in 250 us units, rounded to nearest
		du := now - refLast
		var units int64
		if du >= 0 {
			units = (du + 125) / 250
		} else {
			units = (du - 125) / 250
		}
		fits := units >= -32768 && units <= 32767
		ok := fb.addReceived(seq, now)
		vr.Assert(ok == fits, "accepted exactly when the delta fits the signed 16-bit field of the wire format")
		if !ok {
			vr.Cover("delta too large: refused")
			now -= d // the packet is left for the next feedback; this history continues without it
			nw -= gap
			seq -= uint16(gap)
			continue
		}
		refLast += units * 250
		arrival[nw] = now
		want[nw] = 1 // received (small or large decided by the packer)
		nw++
		seq++
	}
	pkt := fb.getRTCP()
	vr.Cover("packet built")
	vr.Assert(int(pkt.PacketStatusCount) == nw && pkt.BaseSequenceNumber == base, "status count and base")
	var got [40]uint16
	ng := c05expand(pkt, &got)
	vr.Assert(ng >= nw && ng <= nw+13, "chunks cover the status count (padding only in the last chunk)")
	di := 0
	ref := int64(pkt.ReferenceTime) * 64000
	for i := 0; i < nw; i++ {
		if want[i] == rtcp.TypeTCCPacketNotReceived {
			vr.Assert(got[i] == rtcp.TypeTCCPacketNotReceived, "not received status reported as such")
			continue
		}
		vr.Assert(got[i] == rtcp.TypeTCCPacketReceivedSmallDelta || got[i] == rtcp.TypeTCCPacketReceivedLargeDelta, "received status reported as received")
		vr.Assert(di < len(pkt.RecvDeltas), "one delta per received status")
		if di < len(pkt.RecvDeltas) {
			dl := pkt.RecvDeltas[di]
			vr.Assert(dl.Type == got[i], "delta type matches its symbol")
			if got[i] == rtcp.TypeTCCPacketReceivedSmallDelta {
				vr.Assert(dl.Delta >= 0 && dl.Delta <= 255*250, "small delta fits one byte of 250 us units")
			} else {
				vr.Assert(dl.Delta >= -32768*250 && dl.Delta <= 32767*250, "large delta fits int16 of 250 us units")
			}
			ref += dl.Delta
			e := ref - arrival[i]
			vr.Assert(e >= -125 && e <= 125, "decoded arrival within 125 us of the recorded arrival")
		}
		di++
	}
	vr.Assert(di == len(pkt.RecvDeltas), "no surplus deltas")
	for i := nw; i < ng && i < len(got); i++ {
		_ = got[i] // padding symbols beyond the status count are ignored by decoders
	}
	// wire form
	if vr.Param("wire", 1) != 0 {
		b, err := pkt.Marshal()
		vr.Assert(err == nil, "marshals")
		vr.Assert(len(b) == 4*(int(pkt.Header.Length)+1), "marshals to its declared length")
		var back rtcp.TransportLayerCC
		vr.Assert(back.Unmarshal(b) == nil, "parses back")
		vr.Assert(back.BaseSequenceNumber == pkt.BaseSequenceNumber && back.PacketStatusCount == pkt.PacketStatusCount &&
			back.ReferenceTime == pkt.ReferenceTime&0xFFFFFF && back.FbPktCount == pkt.FbPktCount && back.SenderSSRC == 1 && back.MediaSSRC == 2, "fixed fields survive the wire")
		vr.Assert(len(back.RecvDeltas) == len(pkt.RecvDeltas), "delta count survives the wire")
		for i := range back.RecvDeltas {
			if i < len(pkt.RecvDeltas) {
				vr.Assert(back.RecvDeltas[i].Delta == pkt.RecvDeltas[i].Delta && back.RecvDeltas[i].Type == pkt.RecvDeltas[i].Type, "deltas survive the wire")
			}
		}
		var got2 [40]uint16
		ng2 := c05expand(&back, &got2)
		vr.Assert(ng2 >= nw, "parsed chunks cover the status count")
		for i := 0; i < nw; i++ {
			vr.Assert(got2[i] == got[i], "statuses survive the wire")
		}
	}
}

// HC05Chunks: the chunk packer alone, driven with an arbitrary symbol sequence: the emitted chunks
// decode to exactly the driven sequence, each chunk is well formed (1-bit vectors carry no large
// delta, 2-bit vectors at most 7 symbols, run lengths within 13 bits).
func HC05Chunks() {
	n := vr.Param("symbols", 16)
	var c chunk
	var driven [40]uint16
	var out [80]uint16
	no := 0
	emit := func(ch rtcp.PacketStatusChunk) {
		switch x := ch.(type) {
		case *rtcp.RunLengthChunk:
			vr.Assert(x.RunLength >= 1 && x.RunLength <= 0x1fff, "run length fits 13 bits")
			for i := 0; i < int(x.RunLength); i++ {
				out[no] = x.PacketStatusSymbol
				no++
			}
		case *rtcp.StatusVectorChunk:
			if x.SymbolSize == rtcp.TypeTCCSymbolSizeOneBit {
				vr.Assert(len(x.SymbolList) == 14, "one-bit vector chunk carries 14 symbols")
				for _, s := range x.SymbolList {
					vr.Assert(s <= 1, "one-bit vector chunk cannot carry a large delta")
				}
			} else {
				vr.Assert(len(x.SymbolList) >= 1 && len(x.SymbolList) <= 7, "two-bit vector chunk carries at most 7 symbols")
			}
			for _, s := range x.SymbolList {
				out[no] = s
				no++
			}
		}
	}
	for i := 0; i < n; i++ {
		s := uint16(vr.NondetInt(0, 2))
		driven[i] = s
		if !c.canAdd(s) {
			emit(c.encode())
			vr.Cover("chunk flushed")
		}
		c.add(s)
	}
	for len(c.deltas) > 0 {
		emit(c.encode())
	}
	vr.Assert(no == n, "every status encoded exactly once (before padding)")
	k := vr.NondetInt(0, n-1)
	vr.Assert(out[k] == driven[k], "decoded status sequence equals the driven sequence")
}

// HC05Recorder: bounded record/build histories through the real Recorder (arrival-time map,
// unwrapper, packer). Sequence offsets and arrival steps are case-split from small tables.
func HC05Recorder() {
	nrec := vr.Param("records", 4)
	span := vr.Param("span", 4)
	bases := [2]int64{1<<16 + 100, 1<<16 + 65533}
	base := bases[vr.Concretize(vr.NondetInt(0, 1))]
	r := NewRecorder(5)
	var seqs [8]int64
	var times [8]int64
	var reported [8]bool
	n := 0
	now := int64(1000000)
	buildAt := vr.Concretize(vr.NondetInt(1, nrec))
	var lastCount uint8
	haveCount := false
	check := func() {
		pkts := r.BuildFeedbackPacket()
		var prevEnd int64 = -1
		earlier := reported
		// a recorded arrival may have left the history if it was reported by an earlier build and a
		// later packet with a higher number arrived at least 500 ms after it (Record culls then)
		cullable := func(j int) bool {
			if !earlier[j] {
				return false
			}
			for i := j + 1; i < n; i++ {
				if times[i]-500000 >= times[j] && seqs[i] > seqs[j] {
					vr.Cover("aged out of the history")
					return true
				}
			}
			return false
		}
		for _, p := range pkts {
			fb, ok := p.(*rtcp.TransportLayerCC)
			vr.Assert(ok, "feedback packets are TWCC packets")
			if haveCount {
				vr.Assert(fb.FbPktCount == lastCount+1, "feedback packet count increases by one per packet")
			}
			lastCount, haveCount = fb.FbPktCount, true
			var st [40]uint16
			ns := c05expand(fb, &st)
			vr.Assert(ns >= int(fb.PacketStatusCount), "chunks cover the status count")
			// unwrapped base: the number in [base-8, base+span+8] congruent to the 16-bit base
			var ub int64 = -1
			for c := base - 8; c <= base+int64(span)+8; c++ {
				if uint16(c) == fb.BaseSequenceNumber {
					ub = c
				}
			}
			vr.Assert(ub >= 0, "base sequence number is near the recorded numbers")
			vr.Assert(ub > prevEnd, "packets of one build cover consecutive non-overlapping ranges")
			prevEnd = ub + int64(fb.PacketStatusCount) - 1
			ref := int64(fb.ReferenceTime) * 64000
			di := 0
			for i := 0; i < int(fb.PacketStatusCount); i++ {
				x := ub + int64(i)
				if st[i] == rtcp.TypeTCCPacketNotReceived {
					for j := 0; j < n; j++ {
						vr.Assert(seqs[j] != x || cullable(j), "not received is reported only for numbers without a recorded arrival (in the 500 ms history)")
					}
					continue
				}
				vr.Assert(di < len(fb.RecvDeltas), "one delta per received status")
				if di < len(fb.RecvDeltas) {
					ref += fb.RecvDeltas[di].Delta
					// the first recorded arrival of x that is still in the history: every earlier copy
					// must already have been reported and have aged out of the 500 ms window
					match, any := false, false
					for j := 0; j < n && !match; j++ {
						if seqs[j] != x {
							continue
						}
						any = true
						e := ref - times[j]
						if e >= -125 && e <= 125 {
							match = true
						} else if !cullable(j) {
							break
						}
					}
					vr.Assert(any, "received is reported only for recorded numbers")
					vr.Assert(match, "decoded arrival within 125 us of the first recorded arrival still in the history")
					for j := 0; j < n; j++ {
						if seqs[j] == x {
							reported[j] = true
						}
					}
				}
				di++
			}
			vr.Assert(di == len(fb.RecvDeltas), "no surplus deltas")
		}
		for j := 0; j < n; j++ {
			vr.Assert(reported[j], "every packet recorded since the previous feedback is reported by the next one")
		}
		if len(pkts) > 0 {
			vr.Cover("feedback built")
		}
		if len(pkts) > 1 {
			vr.Cover("build split into several packets")
		}
	}
	for i := 0; i < nrec; i++ {
		off := int64(vr.Concretize(vr.NondetInt(0, span)))
		steps := [4]int64{0, 130, 20000, 70000}
		nsteps := 4
		if vr.Param("steptab", 0) == 1 {
			// gaps beyond what one feedback packet can express (int16 x 250 us): the build splits
			steps = [4]int64{130, 9000000, 0, 0}
			nsteps = 2
		}
		now += steps[vr.Concretize(vr.NondetInt(0, nsteps-1))]
		x := base + off
		if i == 0 {
			vr.Assume(uint16(x) >= uint16(span+1)) // unwrapper floor-at-zero corner (see C20) excluded
		}
		r.Record(9, uint16(x), now)
		for j := 0; j < n; j++ {
			if seqs[j] == x {
				vr.Cover("duplicate ignored")
			}
		}
		seqs[n], times[n], reported[n] = x, now, false
		n++
		if i+1 == buildAt {
			check()
		}
	}
	check()
}
