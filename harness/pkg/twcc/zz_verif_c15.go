//go:build verif

package twcc

import (
	"github.com/pion/interceptor"
	"github.com/pion/rtp"

	vr "github.com/pion/interceptor/internal/verifrt"
)

type c15rec struct {
	hdr     *rtp.Header
	payload []byte
	n       int
}

// HC15Step: one write from an arbitrary counter value (all 2^32), arbitrary extension id 1..14,
// header shapes: 0 none, 1 one-byte profile with another extension, 2 one-byte with the same id
// already present, 3 two-byte profile with another extension.
func HC15Step() {
	c := vr.NondetU32()
	id := vr.NondetInt(1, 14)
	shape := vr.Param("shape", 0)
	h := &HeaderExtensionInterceptor{nextSequenceNr: c}
	var log [4]c15rec
	nlog := 0
	down := interceptor.RTPWriterFunc(func(header *rtp.Header, payload []byte, _ interceptor.Attributes) (int, error) {
		if nlog < len(log) {
			log[nlog] = c15rec{hdr: header, payload: payload, n: len(payload)}
		}
		nlog++
		return len(payload) + 12, nil
	})
	info := &interceptor.StreamInfo{SSRC: 1, RTPHeaderExtensions: []interceptor.RTPHeaderExtension{{URI: "urn:other", ID: 15}, {URI: transportCCURI, ID: id}}}
	w := h.BindLocalStream(info, down)

	hdr := &rtp.Header{Version: 2, Marker: vr.NondetBool(), PayloadType: uint8(vr.NondetInt(0, 127)), SequenceNumber: vr.NondetU16(), Timestamp: vr.NondetU32(), SSRC: vr.NondetU32()}
	other := uint8(vr.NondetInt(1, 14))
	ob := vr.NondetBytes(2)
	switch shape {
	case 1:
		vr.Assume(int(other) != id)
		vr.Assert(hdr.SetExtension(other, []byte{ob[0], ob[1]}) == nil, "setup")
	case 2:
		vr.Assert(hdr.SetExtension(uint8(id), []byte{ob[0], ob[1]}) == nil, "setup")
	case 3:
		vr.Assume(int(other) != id)
		hdr.Extension = true
		hdr.ExtensionProfile = rtp.ExtensionProfileTwoByte
		vr.Assert(hdr.SetExtension(other, []byte{ob[0], ob[1]}) == nil, "setup")
	}
	before := hdr.Clone()
	payload := vr.NondetBytes(3)
	p0, p1, p2 := payload[0], payload[1], payload[2]
	n, err := w.Write(hdr, payload, nil)
	vr.Cover("written")
	vr.Assert(err == nil && n == 15, "write succeeds and returns the downstream result")
	vr.Assert(nlog == 1, "exactly one downstream write")
	vr.Assert(h.nextSequenceNr == c+1, "counter advanced by one")
	got := log[0].hdr
	ext := got.GetExtension(uint8(id))
	vr.Assert(len(ext) == 2 && ext[0] == uint8(uint16(c)>>8) && ext[1] == uint8(uint16(c)), "extension carries uint16(counter) big endian")
	vr.Assert(got.Extension, "extension bit set")
	vr.Assert(got.Version == before.Version && got.Marker == before.Marker && got.PayloadType == before.PayloadType &&
		got.SequenceNumber == before.SequenceNumber && got.Timestamp == before.Timestamp && got.SSRC == before.SSRC &&
		got.Padding == before.Padding && len(got.CSRC) == 0, "fixed header fields unchanged")
	if shape == 1 || shape == 3 {
		o := got.GetExtension(other)
		vr.Assert(len(o) == 2 && o[0] == ob[0] && o[1] == ob[1], "pre-existing extension untouched")
		vr.Assert(len(got.GetExtensionIDs()) == 2, "only one extension added")
		vr.Assert(got.ExtensionProfile == before.ExtensionProfile, "profile kept")
	} else {
		vr.Assert(len(got.GetExtensionIDs()) == 1, "exactly one extension present")
	}
	vr.Assert(log[0].n == 3 && log[0].payload[0] == p0 && log[0].payload[1] == p1 && log[0].payload[2] == p2, "payload unchanged")
}

// HC15Streams: two negotiated streams (different ids) and one not negotiated sharing one
// interceptor; writes in a symbolic order: numbers are consecutive modulo 2^16, no gap, no duplicate.
func HC15Streams() {
	writes := vr.Param("writes", 4)
	c := vr.NondetU32()
	h := &HeaderExtensionInterceptor{nextSequenceNr: c}
	var seen [6]uint16
	var seenStream [6]int
	nlog := 0
	mk := func(stream int, id uint8) interceptor.RTPWriter {
		return interceptor.RTPWriterFunc(func(header *rtp.Header, payload []byte, _ interceptor.Attributes) (int, error) {
			if id != 0 {
				e := header.GetExtension(id)
				vr.Assert(len(e) == 2, "negotiated stream leaves with the extension")
				if len(e) == 2 && nlog < len(seen) {
					seen[nlog] = uint16(e[0])<<8 | uint16(e[1])
				}
			} else {
				vr.Assert(!header.Extension && len(header.GetExtensionIDs()) == 0, "not negotiated: untouched")
			}
			if nlog < len(seen) {
				seenStream[nlog] = stream
			}
			nlog++
			return 0, nil
		})
	}
	d0, d1, d2 := mk(0, 3), mk(1, 7), mk(2, 0)
	w0 := h.BindLocalStream(&interceptor.StreamInfo{SSRC: 10, RTPHeaderExtensions: []interceptor.RTPHeaderExtension{{URI: transportCCURI, ID: 3}}}, d0)
	w1 := h.BindLocalStream(&interceptor.StreamInfo{SSRC: 11, RTPHeaderExtensions: []interceptor.RTPHeaderExtension{{URI: transportCCURI, ID: 7}}}, d1)
	w2 := h.BindLocalStream(&interceptor.StreamInfo{SSRC: 12}, d2)
	negotiated := 0
	for i := 0; i < writes; i++ {
		hdr := &rtp.Header{Version: 2, SequenceNumber: uint16(i)}
		switch vr.NondetInt(0, 2) {
		case 0:
			_, err := w0.Write(hdr, nil, nil)
			vr.Assert(err == nil, "write ok")
			negotiated++
		case 1:
			_, err := w1.Write(hdr, nil, nil)
			vr.Assert(err == nil, "write ok")
			negotiated++
		case 2:
			_, err := w2.Write(hdr, nil, nil)
			vr.Assert(err == nil, "write ok")
		}
	}
	vr.Assert(nlog == writes, "every packet forwarded exactly once")
	k := uint16(0)
	for i := 0; i < writes; i++ {
		if seenStream[i] != 2 {
			vr.Assert(seen[i] == uint16(c)+k, "consecutive numbers across streams")
			k++
		}
	}
	vr.Assert(int(k) == negotiated && h.nextSequenceNr == c+uint32(negotiated), "one number per negotiated packet")
	if negotiated >= 2 {
		vr.Cover("two negotiated packets")
	}
}
