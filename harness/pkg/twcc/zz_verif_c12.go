//go:build verif

package twcc

import vr "github.com/pion/interceptor/internal/verifrt"

// HC12ArrivalMap: histories on the arrival-time map with small, large and out-of-range jumps in both
// directions and culling: the ring stays a power of two between 128 and 2^15 slots, never shorter than
// the covered range, and shrinks again (<= max(128, 4*range)) whenever it is adjusted; entries inside
// the range read back what was stored.
func HC12ArrivalMap() {
	ops := vr.Param("ops", 4)
	m := &packetArrivalTimeMap{}
	jumps := [7]int64{1, 5, 200, 9000, 40000, -3, -300}
	cur := int64(1_000_000)
	var seqs [8]int64
	var vals [8]int64
	n := 0
	check := func(adjusted bool) {
		c := m.capacity()
		rng := int(m.endSequenceNumber - m.beginSequenceNumber)
		vr.Assert(c >= 128 && c <= 1<<15 && c&(c-1) == 0, "capacity is a power of two between 128 and 2^15")
		vr.Assert(rng >= 0 && rng <= 1<<15 && rng <= c, "covered range fits the ring and the 2^15 limit")
		if adjusted {
			vr.Assert(c <= max(128, 4*rng), "ring shrinks back: capacity <= max(128, 4*range) after an adjustment")
		}
		for j := 0; j < n; j++ {
			if seqs[j] >= m.beginSequenceNumber && seqs[j] < m.endSequenceNumber {
				later := false
				for k := j + 1; k < n; k++ {
					if seqs[k] == seqs[j] {
						later = true
					}
				}
				if !later {
					vr.Assert(m.get(seqs[j]) == vals[j], "entry inside the range reads back the stored arrival time")
				}
			}
		}
	}
	for i := 0; i < ops; i++ {
		switch vr.Concretize(vr.NondetInt(0, 2)) {
		case 0, 1:
			cur += jumps[vr.Concretize(vr.NondetInt(0, 6))]
			v := int64(1000 + i)
			wasInside := m.arrivalTimes != nil && cur >= m.beginSequenceNumber && cur < m.endSequenceNumber
			tooFarBack := m.arrivalTimes != nil && cur < m.beginSequenceNumber && m.endSequenceNumber-cur > 1<<15
			m.AddPacket(cur, v)
			if !tooFarBack {
				seqs[n], vals[n] = cur, v
				n++
			}
			check(!wasInside && !tooFarBack && n > 1 && false)
		case 2:
			if m.arrivalTimes == nil {
				break
			}
			m.RemoveOldPackets(cur, int64(1000+vr.Concretize(vr.NondetInt(0, 3))))
			vr.Cover("culled")
			check(true)
		}
	}
	if m.arrivalTimes != nil {
		m.EraseTo(cur)
		check(true)
	}
}
