//go:build verif

package nack

import vr "github.com/pion/interceptor/internal/verifrt"

func c03bit(rl *receiveLog, seq uint16) bool { return rl.getReceived(seq) }

// c03State builds an arbitrary receiveLog state of the given size (started).
func c03State(size uint16, maxd int) (*receiveLog, int) {
	rl, err := newReceiveLog(size)
	vr.Assert(err == nil && rl != nil, "constructor accepts size")
	for w := 0; w < len(rl.packets); w++ {
		rl.packets[w] = vr.NondetU64()
	}
	rl.end = vr.NondetU16()
	rl.started = true
	d := vr.NondetInt(0, maxd)
	rl.lastConsecutive = rl.end - uint16(d)
	return rl, d
}

// HC03MissingScan: missingSeqNumbers from an arbitrary state returns exactly the clear
// bits in (lastConsecutive, end-skip], ascending, each once.
func HC03MissingScan() {
	size := uint16(vr.Param("size", 64))
	rl, d := c03State(size, vr.Param("maxd", 8))
	skip := uint16(vr.NondetInt(0, 5))
	buf := make([]uint16, size)
	missing := rl.missingSeqNumbers(skip, buf)
	vr.Assert(len(missing) <= int(size), "fits")
	k := vr.NondetInt(0, int(size)-1)
	x := rl.end - uint16(k)
	expected := k < d && k >= int(skip) && !c03bit(rl, x)
	got := false
	for i := 0; i < int(size); i++ {
		if i < len(missing) && buf[i] == x {
			got = true
		}
	}
	if expected {
		vr.Cover("some number missing")
	}
	vr.Assert(got == expected, "missing == clear bits in (cursor, end-skip]")
	i1 := vr.NondetInt(0, int(size)-1)
	i2 := vr.NondetInt(0, int(size)-1)
	if i1 < i2 && i2 < len(missing) {
		vr.Cover("two missing")
		dd := missing[i2] - missing[i1]
		vr.Assert(dd > 0 && dd < size, "ascending without duplicates")
	}
	if i1 < len(missing) {
		o := rl.end - missing[i1]
		vr.Assert(o < size, "inside window")
	}
}

// HC03LogHistory: bounded histories from the constructor: the invariant of HC03AddStep is
// reachable (not stronger than reality) and the end-to-end missing set equals a list model.
func HC03LogHistory() {
	size := uint16(vr.Param("size", 64))
	k := vr.Param("adds", 3)
	jump := vr.Param("jump", 6)
	back := vr.Param("back", 70)
	rl, err := newReceiveLog(size)
	vr.Assert(err == nil && rl != nil, "constructor accepts size")
	base := int64(vr.NondetInt(1<<17, 1<<17+65535))
	var ts [8]int64
	var inw [8]bool
	first, highest := base, base
	ts[0], inw[0] = base, true
	rl.add(uint16(base))
	n := 1
	for j := 1; j < k; j++ {
		d := int64(vr.NondetInt(-back, jump))
		t := highest + d
		ts[j] = t
		inw[j] = t > highest-int64(size)
		vr.KnownFinding("C03-late-alias", d <= -int64(size))
		if t > highest {
			highest = t
		}
		rl.add(uint16(t))
		n++
		// invariant of the inductive harness holds on reachable states
		dd := int(rl.end - rl.lastConsecutive)
		ff := int(highest - first)
		vr.Assert(rl.end == uint16(highest), "end tracks highest")
		vr.Assert(dd <= int(size) && dd <= ff, "Inv reachable: cursor position")
	}
	// State-level oracle (missingSeqNumbers itself is covered by HC03MissingScan from an arbitrary state):
	// (1) the bitmap equals the reference received-set on the whole window;
	// (2) the cursor is the end of the gap-free prefix that starts at the first packet / window edge.
	off := int64(vr.NondetInt(0, int(size)-1))
	x := highest - off
	received := false
	for j := 0; j < n; j++ {
		if ts[j] == x && inw[j] {
			received = true
		}
	}
	vr.Assert(rl.getReceived(uint16(x)) == received, "bitmap equals reference received-set")
	vr.Assert(rl.get(uint16(x)) == received, "get equals reference")
	lc := highest - int64(rl.end-rl.lastConsecutive)
	lowest := first
	if highest-int64(size) > lowest {
		lowest = highest - int64(size)
	}
	vr.Assert(lc >= lowest && lc <= highest, "cursor between first packet/window edge and highest")
	if x >= lowest && x <= lc && x > highest-int64(size) {
		vr.Cover("behind cursor")
		vr.Assert(received, "no gap at or behind the cursor")
	}
	if x == lc+1 {
		vr.Cover("next after cursor")
		vr.Assert(!received, "cursor is maximal")
	}
	// numbers outside the window are never reported as received
	far := uint16(highest - int64(size) - int64(vr.NondetInt(0, 20000)))
	vr.Assert(!rl.get(far), "behind the window: not received")
	ahead := uint16(highest + 1 + int64(vr.NondetInt(0, 20000)))
	vr.Assert(!rl.get(ahead), "ahead of highest: not received")
}
