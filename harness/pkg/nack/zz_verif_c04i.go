//go:build verif

package nack

import (
	"github.com/pion/interceptor"
	"github.com/pion/rtcp"
	"github.com/pion/rtp"

	vr "github.com/pion/interceptor/internal/verifrt"
)

// HC04Responder: the responder interceptor end to end: 3 packets sent on a NACK-negotiated
// stream (caller scribbles its buffers), a marshalled NACK (symbolic first id and 3-bit mask) read
// through the RTCP reader, the asynchronous resend goroutine run to completion: exactly the
// requested numbers that were sent are retransmitted once each with their original bytes; a NACK
// for another SSRC or after Unbind produces nothing.
func HC04Responder() {
	size := uint16(vr.Param("size", 8))
	f, err := NewResponderInterceptor(ResponderSize(size))
	vr.Assert(err == nil, "factory")
	it, err := f.NewInterceptor("")
	vr.Assert(err == nil, "interceptor")
	type rec struct {
		seq  uint16
		b0   byte
		n    int
		ssrc uint32
	}
	var out [16]rec
	nout := 0
	info := &interceptor.StreamInfo{SSRC: 0x1111, RTCPFeedback: []interceptor.RTCPFeedback{{Type: "nack"}}}
	w := it.BindLocalStream(info, interceptor.RTPWriterFunc(func(h *rtp.Header, p []byte, _ interceptor.Attributes) (int, error) {
		if nout < len(out) {
			r := rec{seq: h.SequenceNumber, n: len(p), ssrc: h.SSRC}
			if len(p) > 0 {
				r.b0 = p[0]
			}
			out[nout] = r
		}
		nout++
		return len(p), nil
	}))
	bases := [2]uint16{300, 65534}
	base := bases[vr.Concretize(vr.NondetInt(0, 1))]
	var pay [3]byte
	buf := make([]byte, 2)
	hdr := &rtp.Header{Version: 2, SSRC: 0x1111}
	for i := 0; i < 3; i++ {
		pay[i] = vr.NondetU8()
		buf[0] = pay[i]
		hdr.SequenceNumber = base + uint16(i)
		_, werr := w.Write(hdr, buf[:1], nil)
		vr.Assert(werr == nil, "write passes through")
		buf[0] = 0xEE
		hdr.SequenceNumber = 0xEEEE
	}
	vr.Assert(nout == 3, "three packets forwarded")
	first := base + uint16(vr.Concretize(vr.NondetInt(0, 4))) - 1 // base-1 .. base+3
	mask := uint16(vr.Concretize(vr.NondetInt(0, 7)))
	media := uint32(0x1111)
	other := vr.NondetBool()
	if other {
		media = 0x9999
	}
	nackBytes, merr := (&rtcp.TransportLayerNack{SenderSSRC: 1, MediaSSRC: media, Nacks: []rtcp.NackPair{{PacketID: first, LostPackets: rtcp.PacketBitmap(mask)}}}).Marshal()
	vr.Assert(merr == nil, "nack marshals")
	rr := it.BindRTCPReader(interceptor.RTCPReaderFunc(func(b []byte, at interceptor.Attributes) (int, interceptor.Attributes, error) {
		copy(b, nackBytes)
		return len(nackBytes), at, nil
	}))
	big := make([]byte, 128)
	_, _, rerr := rr.Read(big, nil)
	vr.Assert(rerr == nil, "nack read passes through")
	vr.Yield() // the resend goroutine runs
	// expected: requested numbers = first and first+1+k for mask bit k, that were sent (base..base+2)
	for i := 0; i < 3; i++ {
		seq := base + uint16(i)
		d := seq - first
		requested := d == 0 || (d >= 1 && d <= 3 && mask&(1<<(d-1)) != 0)
		cnt := 0
		for k := 3; k < nout && k < len(out); k++ {
			if out[k].seq == seq {
				cnt++
				vr.Assert(out[k].n == 1 && out[k].b0 == pay[i] && out[k].ssrc == 0x1111, "retransmission equals the packet as originally sent")
			}
		}
		inWindow := (base+2)-seq < size // among the most recent `size` numbers up to the highest sent
		if requested && !other && inWindow {
			vr.Cover("retransmitted")
			vr.Assert(cnt == 1, "exactly one retransmission per requested packet")
		} else {
			vr.Assert(cnt == 0, "not requested / other SSRC / outside the window: nothing")
		}
	}
	for k := 3; k < nout && k < len(out); k++ {
		d := out[k].seq - base
		vr.Assert(d < 3, "only packets that were sent are retransmitted")
	}
	// after unbind nothing
	it.UnbindLocalStream(info)
	before := nout
	_, _, _ = rr.Read(big, nil)
	vr.Yield()
	vr.Assert(nout == before, "nothing is retransmitted for an unbound stream")
	vr.Assert(it.Close() == nil, "close")
	vr.Assert(vr.LiveThreads() == 0, "resend goroutines finished")
}
