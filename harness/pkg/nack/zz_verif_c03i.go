//go:build verif

package nack

import (
	"time"

	"github.com/pion/interceptor"
	"github.com/pion/rtcp"

	vr "github.com/pion/interceptor/internal/verifrt"
)

// HC03Interceptor: the generator interceptor end to end: two NACK-negotiated streams and one that
// did not negotiate NACK, packets read through the bound readers (one read failing), ticks fired by
// the harness, a per-packet NACK limit. The NACKs written at each tick are compared with the
// missing set of a list reference, per stream.
func HC03Interceptor() {
	maxNacks := uint16(vr.Param("maxnacks", 1))
	f, err := NewGeneratorInterceptor(GeneratorSize(64), GeneratorSkipLastN(0), GeneratorMaxNacksPerPacket(maxNacks), GeneratorInterval(time.Second))
	vr.Assert(err == nil, "factory")
	it, err := f.NewInterceptor("")
	vr.Assert(err == nil, "interceptor")
	type nackRec struct {
		ssrc uint32
		seqs [8]uint16
		n    int
	}
	var out [8]nackRec
	nout := 0
	it.BindRTCPWriter(interceptor.RTCPWriterFunc(func(pkts []rtcp.Packet, _ interceptor.Attributes) (int, error) {
		for _, p := range pkts {
			nk, ok := p.(*rtcp.TransportLayerNack)
			vr.Assert(ok, "only NACKs are written")
			if ok && nout < len(out) {
				r := nackRec{ssrc: nk.MediaSSRC}
				for _, pair := range nk.Nacks {
					for _, s := range pair.PacketList() {
						if r.n < len(r.seqs) {
							r.seqs[r.n] = s
						}
						r.n++
					}
				}
				out[nout] = r
			}
			nout++
		}
		return 0, nil
	}))
	vr.Yield() // let the loop goroutine start and park on its ticker
	fb := []interceptor.RTCPFeedback{{Type: "nack"}}
	var cur [3]uint16 // next packet to deliver per stream
	var fail [3]bool
	mk := func(i int) interceptor.RTPReader {
		return interceptor.RTPReaderFunc(func(buf []byte, at interceptor.Attributes) (int, interceptor.Attributes, error) {
			if fail[i] {
				return 0, nil, errReadFailed
			}
			pkt := [12]byte{0x80, 96, byte(cur[i] >> 8), byte(cur[i]), 0, 0, 0, 1, 0, 0, 0, byte(i + 1)}
			copy(buf, pkt[:])
			return 12, at, nil
		})
	}
	r0 := it.BindRemoteStream(&interceptor.StreamInfo{SSRC: 1, RTCPFeedback: fb}, mk(0))
	r1 := it.BindRemoteStream(&interceptor.StreamInfo{SSRC: 2, RTCPFeedback: fb}, mk(1))
	r2 := it.BindRemoteStream(&interceptor.StreamInfo{SSRC: 3}, mk(2)) // NACK not negotiated
	readers := [3]interceptor.RTPReader{r0, r1, r2}
	bases := [2]uint16{1000, 65534}
	base := bases[vr.Concretize(vr.NondetInt(0, 1))]
	buf := make([]byte, 64)
	// reference: received offsets per stream
	var got [3][8]bool
	var highest [3]int
	var first [3]int
	for i := range highest {
		highest[i], first[i] = -1, -1
	}
	deliver := func(s, off int, failing bool) {
		cur[s] = base + uint16(off)
		fail[s] = failing
		_, _, rerr := readers[s].Read(buf, nil)
		if failing {
			vr.Assert(rerr != nil, "read error returned")
			return
		}
		vr.Assert(rerr == nil, "read ok")
		if first[s] < 0 {
			first[s] = off
		}
		got[s][off] = true
		if off > highest[s] {
			highest[s] = off
		}
	}
	// stream 1: 0, then a symbolic later packet; stream 2: 0 and 3; stream 3 (not negotiated): 0 and 4
	deliver(0, 0, false)
	o1 := vr.Concretize(vr.NondetInt(1, 4))
	deliver(0, o1, false)
	deliver(0, 2, true) // a failed read must not count as received
	deliver(1, 0, false)
	deliver(1, 3, false)
	deliver(2, 0, false)
	deliver(2, 4, false)
	ticks := vr.Param("ticks", 3)
	now := time.Unix(1700000000, 0)
	var reqCount [2][8]int // reference: how often each missing number was listed so far
	for t := 0; t < ticks; t++ {
		if t == 1 {
			// a second, later loss on stream 1 while the first one is still outstanding
			deliver(0, 6, false)
			vr.Cover("second loss")
		}
		before := nout
		now = now.Add(time.Second)
		vr.FireTickers(now)
		vr.Yield()
		for s := 0; s < 2; s++ {
			// expected: missing numbers of stream s whose request count is below the limit
			var exp [8]bool
			nexp, nmiss := 0, 0
			for off := first[s] + 1; off < highest[s]; off++ {
				if got[s][off] {
					continue
				}
				nmiss++
				if maxNacks == 0 || reqCount[s][off] < int(maxNacks) {
					exp[off] = true
					nexp++
				}
				reqCount[s][off]++
			}
			cnt := 0
			for k := before; k < nout && k < len(out); k++ {
				if out[k].ssrc != uint32(s+1) {
					continue
				}
				cnt++
				vr.Assert(out[k].n == nexp, "requested exactly the missing numbers that are below the per-packet limit")
				for j := 0; j < out[k].n && j < 8; j++ {
					off := int(out[k].seqs[j] - base)
					vr.Assert(off >= 0 && off < 8 && exp[off], "requested number is missing, inside the window, after the first packet, and not over the limit")
				}
			}
			if nexp > 0 {
				vr.Cover("nack sent")
				vr.Assert(cnt == 1, "one NACK per stream with requestable missing packets per tick")
			} else {
				vr.Assert(cnt == 0, "no NACK when nothing is missing (or every missing number reached the limit)")
			}
			_ = nmiss
		}
		for k := before; k < nout && k < len(out); k++ {
			vr.Assert(out[k].ssrc != 3, "stream that did not negotiate NACK is never NACKed")
		}
	}
	// after unbind no further NACK for that stream
	it.UnbindRemoteStream(&interceptor.StreamInfo{SSRC: 2, RTCPFeedback: fb})
	before := nout
	now = now.Add(time.Second)
	vr.FireTickers(now)
	vr.Yield()
	for k := before; k < nout && k < len(out); k++ {
		vr.Assert(out[k].ssrc != 2, "no NACK for an unbound stream")
	}
	vr.Assert(it.Close() == nil, "close")
	vr.Assert(vr.LiveThreads() == 0, "loop finished")
}

var errReadFailed = interceptorReadErr{}

type interceptorReadErr struct{}

func (interceptorReadErr) Error() string { return "read failed" }
