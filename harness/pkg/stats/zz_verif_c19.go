//go:build verif

package stats

import (
	"time"

	"github.com/pion/logging"
	"github.com/pion/rtcp"
	"github.com/pion/rtp"

	"github.com/pion/interceptor/internal/ntp"
	vr "github.com/pion/interceptor/internal/verifrt"
)

var c19epoch = time.Unix(1700000000, 0)

func c19ssrc() uint32 {
	if vr.NondetBool() {
		return 100
	}
	return 200
}

func c19rtcp(kind int) (rtcp.Packet, uint32) {
	s := c19ssrc()
	switch kind {
	case 0:
		return &rtcp.TransportLayerNack{SenderSSRC: 1, MediaSSRC: s, Nacks: []rtcp.NackPair{{PacketID: 5}}}, s
	case 1:
		return &rtcp.PictureLossIndication{SenderSSRC: 1, MediaSSRC: s}, s
	case 2:
		return &rtcp.FullIntraRequest{SenderSSRC: 1, MediaSSRC: s, FIR: []rtcp.FIREntry{{SSRC: s, SequenceNumber: 1}}}, s
	default:
		// XR addressed to the stream (DLRR block for it) that carries no usable measurement
		return &rtcp.ExtendedReport{SenderSSRC: 1, Reports: []rtcp.ReportBlock{&rtcp.DLRRReportBlock{Reports: []rtcp.DLRRReport{{SSRC: s}}}}}, s
	}
}

// HC19Recount: bounded event histories through the recorder's record* functions against a recount.
func HC19Recount() {
	nev := vr.Param("events", 3)
	r := newRecorder(100, 90000, logging.NewDefaultLoggerFactory())
	st := internalStats{}
	var recvN, sentN uint64
	var recvBytes, recvHdr, sentBytes, sentHdr uint64
	var inNack, inPli, inFir, outNack, outPli, outFir uint32
	var remoteLost int64
	var remoteFrac uint8
	haveRemote := false
	base := int64(vr.NondetInt(1<<17+8, 1<<17+65535))
	first, highest := int64(-1), int64(-1)
	for ev := 0; ev < nev; ev++ {
		switch vr.Concretize(vr.NondetInt(0, 4)) {
		case 4: // incoming receiver report with two reception report blocks
			s1, s2 := c19ssrc(), c19ssrc()
			l1, l2 := uint32(vr.NondetInt(0, 1<<23)), uint32(vr.NondetInt(0, 1<<23))
			f1, f2 := uint8(vr.NondetInt(0, 255)), uint8(vr.NondetInt(0, 255))
			rr := &rtcp.ReceiverReport{SSRC: 1, Reports: []rtcp.ReceptionReport{{SSRC: s1, TotalLost: l1, FractionLost: f1}, {SSRC: s2, TotalLost: l2, FractionLost: f2}}}
			st = r.recordIncomingRTCP(st, &incomingRTCP{ts: c19epoch, pkts: []rtcp.Packet{rr}})
			if s1 == 100 {
				remoteLost, remoteFrac, haveRemote = int64(l1), f1, true
			}
			if s2 == 100 {
				remoteLost, remoteFrac, haveRemote = int64(l2), f2, true
				vr.Cover("report block for the stream after another block")
			}
		case 0: // incoming RTP
			s := c19ssrc()
			t := base + int64(vr.NondetInt(-3, 3))
			pl := vr.NondetInt(0, 1460)
			if first < 0 && s == 100 {
				vr.Assume(uint16(t) >= 8) // unwrapper floor-at-zero corner (see C20) excluded
			}
			hdr := rtp.Header{Version: 2, SSRC: s, SequenceNumber: uint16(t), Timestamp: 1000}
			st = r.recordIncomingRTP(st, &incomingRTP{ts: c19epoch, header: hdr, payloadLen: pl})
			if s == 100 {
				recvN++
				recvHdr += 12
				recvBytes += uint64(12 + pl)
				if first < 0 {
					first, highest = t, t
				}
				if t > highest {
					highest = t
				}
				vr.Cover("incoming rtp counted")
			}
		case 1: // outgoing RTP
			s := c19ssrc()
			pl := vr.NondetInt(0, 1460)
			hdr := rtp.Header{Version: 2, SSRC: s, SequenceNumber: vr.NondetU16(), CSRC: []uint32{7}}
			st = r.recordOutgoingRTP(st, &outgoingRTP{ts: c19epoch, header: hdr, payloadLen: pl})
			if s == 100 {
				sentN++
				sentHdr += 16
				sentBytes += uint64(16 + pl)
			}
		case 2: // incoming RTCP compound of two packets
			k1 := vr.Concretize(vr.NondetInt(0, 3))
			k2 := vr.Concretize(vr.NondetInt(0, 2))
			p1, s1 := c19rtcp(k1)
			p2, s2 := c19rtcp(k2)
			st = r.recordIncomingRTCP(st, &incomingRTCP{ts: c19epoch, pkts: []rtcp.Packet{p1, p2}})
			for i, k := range [2]int{k1, k2} {
				s := s1
				if i == 1 {
					s = s2
				}
				if s != 100 {
					continue
				}
				switch k {
				case 0:
					inNack++
				case 1:
					inPli++
				case 2:
					inFir++
				}
			}
			if k1 == 3 && s1 == 100 {
				vr.Cover("XR first in a compound packet")
			}
		case 3: // outgoing RTCP compound of two packets (intervalpli writes one PLI per stream in one batch)
			k1 := vr.Concretize(vr.NondetInt(0, 2))
			k2 := vr.Concretize(vr.NondetInt(0, 2))
			p1, s1 := c19rtcp(k1)
			p2, s2 := c19rtcp(k2)
			st = r.recordOutgoingRTCP(st, &outgoingRTCP{ts: c19epoch, pkts: []rtcp.Packet{p1, p2}})
			for i, k := range [2]int{k1, k2} {
				s := s1
				if i == 1 {
					s = s2
				}
				if s != 100 {
					continue
				}
				if i == 1 && s1 != 100 {
					vr.Cover("outgoing feedback for the stream after one for another stream")
				}
				switch k {
				case 0:
					outNack++
				case 1:
					outPli++
				case 2:
					outFir++
				}
			}
		}
	}
	in, out := st.InboundRTPStreamStats, st.OutboundRTPStreamStats
	vr.Assert(in.PacketsReceived == recvN && in.BytesReceived == recvBytes && in.HeaderBytesReceived == recvHdr, "inbound packets/bytes/header bytes = recount for this SSRC")
	vr.Assert(out.PacketsSent == sentN && out.BytesSent == sentBytes && out.HeaderBytesSent == sentHdr, "outbound packets/bytes/header bytes = recount for this SSRC")
	if recvN > 0 {
		vr.Assert(in.PacketsLost == (highest-first+1)-int64(recvN), "packets lost = expected - received over the unwrapped range")
	}
	vr.Assert(out.NACKCount == inNack && out.PLICount == inPli && out.FIRCount == inFir, "incoming NACK/PLI/FIR addressed to this SSRC counted")
	vr.Assert(in.NACKCount == outNack && in.PLICount == outPli && in.FIRCount == outFir, "outgoing NACK/PLI/FIR addressed to this SSRC counted")
	if haveRemote {
		vr.Assert(st.RemoteInboundRTPStreamStats.PacketsLost == remoteLost && st.RemoteInboundRTPStreamStats.FractionLost == float64(remoteFrac)/256.0, "remote loss figures from the most recent report block addressed to this SSRC")
	}
}

// HC19RTT: round-trip time from LSR/DLSR: an outgoing sender report is remembered; an incoming
// receiver report whose last-SR field matches it yields RTT = arrival - DLSR - (send time of that SR);
// a report that matches no remembered SR changes nothing.
func HC19RTT() {
	r := newRecorder(100, 90000, logging.NewDefaultLoggerFactory())
	st := internalStats{}
	// several sender reports; the matching one is the k-th newest (only the 5 newest are remembered)
	nsr := vr.Param("srs", 3)
	var ntps [8]uint64
	for i := 0; i < nsr; i++ {
		ntps[i] = uint64(0xE0000000+uint32(i)*7)<<32 | uint64(vr.NondetU32())
		st = r.recordOutgoingRTCP(st, &outgoingRTCP{ts: c19epoch, pkts: []rtcp.Packet{&rtcp.SenderReport{SSRC: 100, NTPTime: ntps[i]}}})
	}
	k := vr.Concretize(vr.NondetInt(0, nsr))
	delay := uint32(vr.Param("dbase", 1)) + uint32(vr.NondetInt(0, 1<<uint(vr.Param("dbits", 16))-1)) // window of 2^dbits DLSR values
	el := time.Duration(vr.NondetInt(0, 1<<30))
	var lsr uint32
	if k < nsr {
		lsr = uint32(ntps[k] >> 16)
	} else {
		lsr = 0x12345678 // matches none
	}
	vr.Assume(lsr != 0)
	var sent time.Time
	if k < nsr {
		sent = ntp.ToTime(ntps[k])
	}
	ts := c19epoch.Add(el)
	rr := &rtcp.ReceiverReport{SSRC: 1, Reports: []rtcp.ReceptionReport{{SSRC: 100, LastSenderReport: lsr, Delay: delay}}}
	st = r.recordIncomingRTCP(st, &incomingRTCP{ts: ts, pkts: []rtcp.Packet{rr}})
	ri := st.RemoteInboundRTPStreamStats
	remembered := k < nsr && k >= nsr-5 // only the five newest sender reports are remembered
	if remembered {
		vr.Cover("matching sender report")
		dlsr := time.Duration(uint64(delay) * 1953125 / 128) // delay/65536 s in ns, exact
		vr.Assert(ri.RoundTripTimeMeasurements == 1, "one measurement")
		vr.Assert(ri.RoundTripTime == ts.Add(-dlsr).Sub(sent), "RTT = arrival - DLSR - send time of the matching sender report")
		vr.Assert(ri.TotalRoundTripTime == ri.RoundTripTime, "total accumulates")
	} else {
		if k < nsr {
			vr.Cover("sender report too old")
		}
		vr.Cover("no matching sender report")
		vr.Assert(ri.RoundTripTimeMeasurements == 0 && ri.RoundTripTime == 0, "no matching sender report: no measurement")
	}
}

// HC19DLRR: round-trip time from XR DLRR: outgoing receiver reference time reports are remembered;
// an incoming XR with a DLRR block holding two sub-reports (for this stream and/or another one)
// yields one measurement per sub-report that is addressed to this SSRC and matches a remembered
// reference time, RTT = arrival - DLRR - send time of that reference; sub-reports for other SSRCs
// never count for this stream.
func HC19DLRR() {
	r := newRecorder(100, 90000, logging.NewDefaultLoggerFactory())
	st := internalStats{}
	nrr := vr.Param("rrs", 2)
	var ntps [8]uint64
	for i := 0; i < nrr; i++ {
		ntps[i] = uint64(0xE0000000+uint32(i)*7)<<32 | uint64(vr.NondetU32())
		xr := &rtcp.ExtendedReport{SenderSSRC: 100, Reports: []rtcp.ReportBlock{&rtcp.ReceiverReferenceTimeReportBlock{NTPTimestamp: ntps[i]}}}
		st = r.recordOutgoingRTCP(st, &outgoingRTCP{ts: c19epoch, pkts: []rtcp.Packet{xr}})
	}
	el := time.Duration(vr.NondetInt(0, 1<<30))
	ts := c19epoch.Add(el)
	var subs [2]rtcp.DLRRReport
	var want [2]bool
	var wantRTT [2]time.Duration
	for j := 0; j < 2; j++ {
		k := vr.Concretize(vr.NondetInt(0, nrr))
		s := uint32(100 + 100*vr.Concretize(vr.NondetInt(0, 1)))
		delay := uint32(vr.Param("dbase", 1)) + uint32(vr.NondetInt(0, 1<<uint(vr.Param("dbits", 16))-1))
		lrr := uint32(0x12345678)
		if k < nrr {
			lrr = uint32(ntps[k] >> 16)
		}
		vr.Assume(lrr != 0)
		subs[j] = rtcp.DLRRReport{SSRC: s, LastRR: lrr, DLRR: delay}
		if k < nrr && s == 100 {
			want[j] = true
			dlrr := time.Duration(uint64(delay) * 1953125 / 128)
			wantRTT[j] = ts.Add(-dlrr).Sub(ntp.ToTime(ntps[k]))
		}
	}
	vr.Assume(subs[0].SSRC == 100 || subs[1].SSRC == 100)
	xr := &rtcp.ExtendedReport{SenderSSRC: 1, Reports: []rtcp.ReportBlock{&rtcp.DLRRReportBlock{Reports: subs[:]}}}
	st = r.recordIncomingRTCP(st, &incomingRTCP{ts: ts, pkts: []rtcp.Packet{xr}})
	ro := st.RemoteOutboundRTPStreamStats
	n := uint64(0)
	var total, lastRTT time.Duration
	for j := 0; j < 2; j++ {
		if want[j] {
			n++
			total += wantRTT[j]
			lastRTT = wantRTT[j]
		}
	}
	if subs[0].SSRC != subs[1].SSRC {
		vr.Cover("sub-report for another stream")
	}
	vr.Assert(ro.RoundTripTimeMeasurements == n, "one measurement per matching DLRR sub-report addressed to this SSRC")
	if n <= 1 {
		vr.Assert(ro.TotalRoundTripTime == total, "total accumulates exactly the matching measurements")
	}
	if n > 0 {
		vr.Cover("matching reference time")
		vr.Assert(ro.RoundTripTime == lastRTT, "RTT = arrival - DLRR - send time of the matching reference time report")
	} else {
		vr.Assert(ro.RoundTripTime == 0, "no matching sub-report: no measurement")
	}
}

// HC12StatsLists (property C12): the recorder's remembered sender reports and receiver reference
// times stay bounded by their configured maximum (5) however many reports are written, and hold the
// most recent ones in order.
func HC12StatsLists() {
	n := vr.Param("reports", 8)
	r := newRecorder(100, 90000, logging.NewDefaultLoggerFactory())
	st := internalStats{}
	var srs, rrs [16]uint64
	ns, nr := 0, 0
	for i := 0; i < n; i++ {
		v := vr.NondetU64()
		if vr.Concretize(vr.NondetInt(0, 1)) == 0 {
			st = r.recordOutgoingRTCP(st, &outgoingRTCP{ts: c19epoch, pkts: []rtcp.Packet{&rtcp.SenderReport{SSRC: 100, NTPTime: v}}})
			srs[ns] = v
			ns++
		} else {
			xr := &rtcp.ExtendedReport{SenderSSRC: 100, Reports: []rtcp.ReportBlock{&rtcp.ReceiverReferenceTimeReportBlock{NTPTimestamp: v}}}
			st = r.recordOutgoingRTCP(st, &outgoingRTCP{ts: c19epoch, pkts: []rtcp.Packet{xr}})
			rrs[nr] = v
			nr++
		}
		vr.Assert(len(st.lastSenderReports) <= 5 && len(st.lastReceiverReferenceTimes) <= 5, "remembered report lists never exceed their maximum")
		vr.Assert(len(st.lastSenderReports) == min(ns, 5) && len(st.lastReceiverReferenceTimes) == min(nr, 5), "the lists hold the most recent reports")
	}
	if ns > 5 {
		vr.Cover("sender report list saturated")
	}
	for k := 0; k < len(st.lastSenderReports); k++ {
		vr.Assert(st.lastSenderReports[k] == srs[ns-len(st.lastSenderReports)+k], "sender reports remembered in order, newest last")
	}
	for k := 0; k < len(st.lastReceiverReferenceTimes); k++ {
		vr.Assert(st.lastReceiverReferenceTimes[k] == rrs[nr-len(st.lastReceiverReferenceTimes)+k], "reference times remembered in order, newest last")
	}
}
