//go:build verif

package stats

import (
	"github.com/pion/interceptor"
	"github.com/pion/rtcp"
	"github.com/pion/rtp"

	vr "github.com/pion/interceptor/internal/verifrt"
)

// HC19Interceptor: the stats interceptor end to end: one local stream and two remote streams behind
// one interceptor; RTP in both directions (symbolic payload lengths, a packet of another SSRC on the
// local writer), an outgoing RTCP compound packet and an incoming one (marshalled, read through
// the RTCP reader); the getter's figures per SSRC equal a recount, streams are independent.
func HC19Interceptor() {
	f, err := NewInterceptor()
	vr.Assert(err == nil, "factory")
	ii, err := f.NewInterceptor("pc")
	vr.Assert(err == nil, "interceptor")
	it := ii.(*Interceptor)
	down := interceptor.RTPWriterFunc(func(h *rtp.Header, p []byte, _ interceptor.Attributes) (int, error) { return len(p), nil })
	w := it.BindLocalStream(&interceptor.StreamInfo{SSRC: 1, ClockRate: 90000}, down)
	var cur uint16
	var curSSRC byte
	var curLen int
	mk := func() interceptor.RTPReader {
		return interceptor.RTPReaderFunc(func(b []byte, at interceptor.Attributes) (int, interceptor.Attributes, error) {
			pkt := [12]byte{0x80, 96, byte(cur >> 8), byte(cur), 0, 0, 0, 1, 0, 0, 0, curSSRC}
			copy(b, pkt[:])
			for i := 12; i < 40; i++ {
				b[i] = 0x55 // stale bytes beyond the packet
			}
			return 12 + curLen, at, nil
		})
	}
	r2 := it.BindRemoteStream(&interceptor.StreamInfo{SSRC: 2, ClockRate: 90000}, mk())
	r3 := it.BindRemoteStream(&interceptor.StreamInfo{SSRC: 3, ClockRate: 90000}, mk())
	buf := make([]byte, 64)
	vr.Yield() // recorders become active on their own goroutine (the property counts "since the recorder became active")
	// outgoing RTP on the local stream
	n1, n2 := vr.NondetInt(0, 1400), vr.NondetInt(0, 1400)
	big := make([]byte, 1400)
	_, _ = w.Write(&rtp.Header{Version: 2, SSRC: 1, SequenceNumber: 10}, big[:n1], nil)
	_, _ = w.Write(&rtp.Header{Version: 2, SSRC: 1, SequenceNumber: 11, CSRC: []uint32{9}}, big[:n2], nil)
	_, _ = w.Write(&rtp.Header{Version: 2, SSRC: 77, SequenceNumber: 5}, big[:3], nil) // RTX/FEC of another SSRC on the same writer
	// incoming RTP: two packets on stream 2 (gap of one), one on stream 3
	l1, l2, l3 := vr.NondetInt(0, 20), vr.NondetInt(0, 20), vr.NondetInt(0, 20)
	cur, curSSRC, curLen = 100, 2, l1
	_, _, _ = r2.Read(buf, nil)
	cur, curLen = 102, l2
	_, _, _ = r2.Read(buf, nil)
	cur, curSSRC, curLen = 500, 3, l3
	_, _, _ = r3.Read(buf, nil)
	// outgoing RTCP: NACK for stream 2, PLI for stream 3
	rw := it.BindRTCPWriter(interceptor.RTCPWriterFunc(func(p []rtcp.Packet, _ interceptor.Attributes) (int, error) { return 0, nil }))
	_, _ = rw.Write([]rtcp.Packet{&rtcp.TransportLayerNack{SenderSSRC: 9, MediaSSRC: 2, Nacks: []rtcp.NackPair{{PacketID: 101}}}, &rtcp.PictureLossIndication{SenderSSRC: 9, MediaSSRC: 3}}, nil)
	// incoming RTCP: PLI + NACK addressed to the local stream, marshalled
	raw, merr := rtcp.Marshal([]rtcp.Packet{&rtcp.PictureLossIndication{SenderSSRC: 8, MediaSSRC: 1}, &rtcp.TransportLayerNack{SenderSSRC: 8, MediaSSRC: 1, Nacks: []rtcp.NackPair{{PacketID: 10}}}})
	vr.Assert(merr == nil, "rtcp marshals")
	rr := it.BindRTCPReader(interceptor.RTCPReaderFunc(func(b []byte, at interceptor.Attributes) (int, interceptor.Attributes, error) {
		copy(b, raw)
		return len(raw), at, nil
	}))
	rbuf := make([]byte, 256)
	_, _, rerr := rr.Read(rbuf, nil)
	vr.Assert(rerr == nil, "rtcp read passes through")
	vr.Yield()
	s1, s2, s3 := it.Get(1), it.Get(2), it.Get(3)
	vr.Assert(s1 != nil && s2 != nil && s3 != nil, "stats for every bound SSRC")
	vr.Cover("queried")
	vr.Assert(s1.OutboundRTPStreamStats.PacketsSent == 2 && s1.OutboundRTPStreamStats.BytesSent == uint64(12+n1+16+n2) && s1.OutboundRTPStreamStats.HeaderBytesSent == 28, "outbound packets/bytes/header bytes of the local SSRC only")
	vr.Assert(s1.OutboundRTPStreamStats.NACKCount == 1 && s1.OutboundRTPStreamStats.PLICount == 1 && s1.OutboundRTPStreamStats.FIRCount == 0, "incoming NACK/PLI addressed to the local SSRC")
	vr.Assert(s1.InboundRTPStreamStats.PacketsReceived == 0, "nothing received on the local SSRC")
	vr.Assert(s2.InboundRTPStreamStats.PacketsReceived == 2 && s2.InboundRTPStreamStats.BytesReceived == uint64(24+l1+l2) && s2.InboundRTPStreamStats.HeaderBytesReceived == 24, "inbound packets/bytes/header bytes of stream 2 (lengths as read, not the buffer size)")
	vr.Assert(s2.InboundRTPStreamStats.PacketsLost == 1, "one packet lost on stream 2")
	vr.Assert(s2.InboundRTPStreamStats.NACKCount == 1 && s2.InboundRTPStreamStats.PLICount == 0, "outgoing NACK counted for stream 2 only")
	vr.Assert(s3.InboundRTPStreamStats.PacketsReceived == 1 && s3.InboundRTPStreamStats.BytesReceived == uint64(12+l3) && s3.InboundRTPStreamStats.PacketsLost == 0, "stream 3 counts its own packet only")
	vr.Assert(s3.InboundRTPStreamStats.PLICount == 1 && s3.InboundRTPStreamStats.NACKCount == 0, "outgoing PLI counted for stream 3 only")
	vr.Assert(it.Close() == nil, "close")
	vr.Assert(vr.LiveThreads() == 0, "no goroutine left")
}
