//go:build verif

package report

import (
	"time"

	"github.com/pion/rtcp"
	"github.com/pion/rtp"

	vr "github.com/pion/interceptor/internal/verifrt"
)

func c06stream(size uint16) *receiverStream {
	return &receiverStream{ssrc: 5, receiverSSRC: 9, clockRate: 90000, size: size, packets: make([]uint64, size)}
}

// HC06Jitter: one jitter update from an arbitrary state: RFC 3550 A.8 on wrapping 32-bit timestamps.
func HC06Jitter() {
	s := c06stream(1)
	s.started = true
	s.lastSeqnum = vr.NondetU16()
	s.lastRTPTimeRTP = uint32(vr.Param("lastbase", 0)) + uint32(vr.NondetInt(0, 1<<uint(vr.Param("tsbits", 12))-1))
	j0 := float64(vr.NondetInt(0, 1<<uint(vr.Param("jbits", 20))-1)) / 16 // any multiple of 1/16 below 2^jbits/16
	s.jitter = j0
	t0 := c07epoch.Add(time.Duration(vr.NondetInt(0, 1<<30)))
	s.lastRTPTimeTime = t0
	el := vr.NondetInt(0, 1<<uint(vr.Param("elbits", 20))-1)
	now := t0.Add(time.Duration(el))
	last := s.lastRTPTimeRTP
	ts := last + uint32(vr.Param("dbase", 0)) + uint32(vr.NondetInt(0, 1<<uint(vr.Param("tsbits", 12))-1))
	s.processRTP(now, &rtp.Header{SequenceNumber: s.lastSeqnum + 1, Timestamp: ts})
	arr := now.Sub(t0).Seconds() * 90000
	d := arr - float64(int32(ts-last)) // wrap-safe timestamp difference
	if d < 0 {
		d = -d
	}
	want := j0 + (d-j0)/16
	vr.KnownFinding("C06-jitter-wrap", ts-last >= 1<<31 && ts > last || last-ts > 1<<31 && last > ts)
	if (ts < last) != (int32(ts-last) < 0) {
		vr.Cover("timestamp wrapped between packets")
	}
	vr.Assert(s.jitter == want, "jitter follows A.8 on wrapping timestamps")
	vr.Assert(s.lastRTPTimeRTP == ts && s.lastRTPTimeTime.Equal(now), "reference updated")
}

// HC06Loss: bounded reception histories (bitmap of 64 packets, same code paths as 8192):
// loss accounting over two report intervals against a list reference.
func HC06Loss() {
	npk := vr.Param("packets", 4)
	fwd := vr.Param("fwd", 5)
	back := vr.Param("back", 5)
	s := c06stream(1)
	base := int64(vr.NondetInt(1<<17, 1<<17+65535))
	var ts [8]int64
	highest := base
	now := c07epoch
	reportAt := vr.NondetInt(1, npk) // first report after this many packets
	var prevHighest int64            // highest at the previous report
	total := uint32(0)
	check := func(n int, first bool) {
		r := s.generateReport(now)
		vr.Assert(len(r.Reports) == 1 && r.Reports[0].SSRC == 5 && r.SSRC == 9, "one block for the stream")
		rr := r.Reports[0]
		vr.Assert(rr.LastSequenceNumber == uint32((highest>>16)-(base>>16))<<16|uint32(uint16(highest)), "extended highest sequence number with cycles")
		lo := prevHighest
		if first {
			lo = base - 1
		}
		expected := highest - lo
		lost := int64(0)
		for x := int64(1); x <= int64(fwd*npk); x++ { // numbers in (lo, highest)
			v := lo + x
			if v >= highest {
				break
			}
			got := false
			for j := 0; j < n; j++ {
				if ts[j] == v {
					got = true
				}
			}
			if !got {
				lost++
			}
		}
		total += uint32(lost)
		vr.Assert(rr.TotalLost == total, "cumulative lost = sum of interval losses")
		if expected > 0 {
			vr.Cover("interval with packets")
			vr.Assert(int64(rr.FractionLost) == lost*256/expected, "fraction lost = floor(256*lost/expected)")
		} else {
			vr.Assert(rr.FractionLost == 0, "empty interval: fraction 0")
		}
		vr.Assert(rr.LastSenderReport == 0 && rr.Delay == 0, "no SR yet: LSR and DLSR zero")
		prevHighest = highest
	}
	for j := 0; j < npk; j++ {
		t := base
		if j > 0 {
			t = highest + int64(vr.NondetInt(-back, fwd))
			vr.Assume(t > prevHighest || j < reportAt) // packets for an already reported interval are outside this oracle
		}
		ts[j] = t
		if t > highest {
			highest = t
		}
		s.processRTP(now, &rtp.Header{SequenceNumber: uint16(t), Timestamp: uint32(j) * 3000})
		if j+1 == reportAt {
			check(j+1, true)
		}
	}
	check(npk, false)
}

// HC06SR: last-SR and delay-since-last-SR reflect the most recent sender report.
func HC06SR() {
	s := c06stream(1)
	s.processRTP(c07epoch, &rtp.Header{SequenceNumber: 1})
	n1, n2 := vr.NondetU64(), vr.NondetU64()
	t1 := c07epoch.Add(time.Duration(vr.NondetInt(0, 1<<30)))
	s.processSenderReport(t1, &rtcp.SenderReport{SSRC: 5, NTPTime: n1})
	t2 := t1.Add(time.Duration(vr.NondetInt(0, 1<<30)))
	s.processSenderReport(t2, &rtcp.SenderReport{SSRC: 5, NTPTime: n2})
	el := vr.Param("elbase", 0) + vr.NondetInt(0, 1<<20-1)
	r := s.generateReport(t2.Add(time.Duration(el)))
	rr := r.Reports[0]
	vr.Assert(rr.LastSenderReport == uint32(n2>>16), "LSR = middle 32 bits of the latest SR NTP time")
	ref := uint32(uint64(el) * 65536 / 1000000000)
	d := rr.Delay - ref
	vr.Cover("delay")
	vr.Assert(d == 0 || d == 1 || d == 0xFFFFFFFF, "DLSR = elapsed since the latest SR in 1/65536 s (within one unit)")
}

// HC06LossStep: from an ARBITRARY history bitmap (stale bits of earlier cycles included) right after
// a report, one packet that jumps forward by d (any base incl. the 16-bit wrap): the next report
// counts exactly the d-1 skipped numbers as lost.
func HC06LossStep() {
	s := c06stream(1)
	s.packets[0] = vr.NondetU64()
	s.started = true
	s.lastSeqnum = vr.NondetU16()
	s.lastReportSeqnum = s.lastSeqnum
	s.seqnumCycles = uint16(vr.NondetInt(0, 3))
	cyc0 := s.seqnumCycles
	tl0 := uint32(vr.NondetInt(0, 0xFFFFFF)) // any reachable cumulative count, incl. right below the 24-bit cap
	s.totalLost = tl0
	s.setReceived(s.lastSeqnum)
	d := uint16(vr.NondetInt(1, vr.Param("maxjump", 6)))
	seq := s.lastSeqnum + d
	last := s.lastSeqnum
	s.processRTP(c07epoch, &rtp.Header{SequenceNumber: seq, Timestamp: 1})
	r := s.generateReport(c07epoch)
	rr := r.Reports[0]
	if seq < last {
		vr.Cover("jump across the sequence wrap")
		vr.Assert(rr.LastSequenceNumber == uint32(cyc0+1)<<16|uint32(seq), "cycle count incremented at the wrap")
	} else {
		vr.Assert(rr.LastSequenceNumber == uint32(cyc0)<<16|uint32(seq), "extended highest sequence number")
	}
	wantTotal := tl0 + uint32(d-1)
	if wantTotal > 0xFFFFFF {
		wantTotal = 0xFFFFFF
		vr.Cover("cumulative lost saturates")
	}
	vr.Assert(rr.TotalLost == wantTotal, "skipped numbers counted lost whatever the bitmap held before, saturating at 2^24-1")
	vr.Assert(uint32(rr.FractionLost) == uint32(d-1)*256/uint32(d), "fraction lost = floor(256*lost/expected)")
}
