//go:build verif

package report

import (
	"time"

	"github.com/pion/interceptor"
	"github.com/pion/rtcp"
	"github.com/pion/rtp"

	"github.com/pion/interceptor/internal/ntp"
	vr "github.com/pion/interceptor/internal/verifrt"
)

// HC07Interceptor: the sender interceptor end to end: two local streams, writes in a symbolic order
// with symbolic payload lengths, a harness-controlled clock, two ticks: one SR per stream per tick
// with that stream's own counts, the report instant as NTP time and (no time elapsed since the
// newest packet) that packet's RTP timestamp.
func HC07Interceptor() {
	now := c07epoch
	f, err := NewSenderInterceptor(SenderNow(func() time.Time { return now }), SenderInterval(time.Second))
	vr.Assert(err == nil, "factory")
	it, err := f.NewInterceptor("")
	vr.Assert(err == nil, "interceptor")
	var srs [8]*rtcp.SenderReport
	nsr := 0
	it.BindRTCPWriter(interceptor.RTCPWriterFunc(func(pkts []rtcp.Packet, _ interceptor.Attributes) (int, error) {
		for _, p := range pkts {
			sr, ok := p.(*rtcp.SenderReport)
			vr.Assert(ok, "sender interceptor writes sender reports only")
			if ok && nsr < len(srs) {
				srs[nsr] = sr
			}
			nsr++
		}
		return 0, nil
	}))
	vr.Yield()
	down := interceptor.RTPWriterFunc(func(h *rtp.Header, p []byte, _ interceptor.Attributes) (int, error) { return len(p), nil })
	w := [2]interceptor.RTPWriter{
		it.BindLocalStream(&interceptor.StreamInfo{SSRC: 1, ClockRate: 90000}, down),
		it.BindLocalStream(&interceptor.StreamInfo{SSRC: 2, ClockRate: 48000}, down),
	}
	var pc, oc [2]uint32
	var lastTS [2]uint32
	var seq [2]uint16
	buf := make([]byte, 1460)
	for round := 0; round < 2; round++ {
		for k := 0; k < 2; k++ {
			s := 0
			if vr.NondetBool() {
				s = 1
			}
			n := vr.NondetInt(0, 1460)
			ts := vr.NondetU32()
			vr.Assume(ts != lastTS[s] || pc[s] == 0)
			seq[s]++
			now = now.Add(time.Millisecond)
			_, werr := w[s].Write(&rtp.Header{Version: 2, SSRC: uint32(s + 1), SequenceNumber: seq[s], Timestamp: ts}, buf[:n], nil)
			vr.Assert(werr == nil, "write passes through")
			pc[s]++
			oc[s] += uint32(n)
			lastTS[s] = ts
			// the report below is taken with no time elapsed since this packet on stream s only if it is the newest overall;
			// to keep the RTP-time clause exact the clock is not advanced between the last write of a stream and the tick
		}
		before := nsr
		vr.FireTickers(now)
		vr.Yield()
		vr.Assert(nsr == before+2, "one sender report per bound stream per tick")
		for k := before; k < nsr && k < len(srs); k++ {
			sr := srs[k]
			vr.Assert(sr.SSRC == 1 || sr.SSRC == 2, "report names a bound stream")
			s := int(sr.SSRC) - 1
			vr.Assert(sr.PacketCount == pc[s] && sr.OctetCount == oc[s], "counts are this stream's own packet and payload-octet counts")
			vr.Assert(sr.NTPTime == ntp.ToNTP(now), "NTP time is the report instant")
		}
		if nsr >= before+2 {
			vr.Assert(srs[before].SSRC != srs[before+1].SSRC, "each stream reported once")
		}
		vr.Cover("tick reported")
	}
	vr.Assert(it.Close() == nil, "close")
}

// HC06Interceptor: the receiver interceptor end to end: two remote streams, a few packets each
// (gap on stream 1), a sender report for stream 2 read through the RTCP reader, one tick: one
// receiver report per stream with that stream's own loss figures and last-SR.
func HC06Interceptor() {
	now := c07epoch
	f, err := NewReceiverInterceptor(ReceiverNow(func() time.Time { return now }), ReceiverInterval(time.Second))
	vr.Assert(err == nil, "factory")
	it, err := f.NewInterceptor("")
	vr.Assert(err == nil, "interceptor")
	var rrs [4]*rtcp.ReceiverReport
	nrr := 0
	it.BindRTCPWriter(interceptor.RTCPWriterFunc(func(pkts []rtcp.Packet, _ interceptor.Attributes) (int, error) {
		for _, p := range pkts {
			rr, ok := p.(*rtcp.ReceiverReport)
			vr.Assert(ok, "receiver interceptor writes receiver reports only")
			if ok && nrr < len(rrs) {
				rrs[nrr] = rr
			}
			nrr++
		}
		return 0, nil
	}))
	vr.Yield()
	var cur [2]uint16
	mk := func(i int) interceptor.RTPReader {
		return interceptor.RTPReaderFunc(func(b []byte, at interceptor.Attributes) (int, interceptor.Attributes, error) {
			pkt := [12]byte{0x80, 96, byte(cur[i] >> 8), byte(cur[i]), 0, 0, 0, 1, 0, 0, 0, byte(i + 1)}
			copy(b, pkt[:])
			return 12, at, nil
		})
	}
	r := [2]interceptor.RTPReader{
		it.BindRemoteStream(&interceptor.StreamInfo{SSRC: 1, ClockRate: 90000}, mk(0)),
		it.BindRemoteStream(&interceptor.StreamInfo{SSRC: 2, ClockRate: 90000}, mk(1)),
	}
	buf := make([]byte, 64)
	base := vr.NondetU16()
	gap := uint16(vr.Concretize(vr.NondetInt(1, 3))) // stream 1 loses gap-1 packets
	for _, s := range [2]uint16{base, base + gap} {
		cur[0] = s
		_, _, rerr := r[0].Read(buf, nil)
		vr.Assert(rerr == nil, "read passes through")
	}
	for _, s := range [3]uint16{base, base + 1, base + 2} {
		cur[1] = s
		_, _, _ = r[1].Read(buf, nil)
	}
	ntpv := vr.NondetU64()
	// the sender report for stream 2 alone, or behind a sender report of a stream that is not bound
	// and a receiver report in the same compound packet
	compound := []rtcp.Packet{&rtcp.SenderReport{SSRC: 2, NTPTime: ntpv}}
	if vr.Concretize(vr.NondetInt(0, 1)) == 1 {
		compound = []rtcp.Packet{&rtcp.SenderReport{SSRC: 9, NTPTime: 77 << 32}, &rtcp.ReceiverReport{SSRC: 9}, compound[0]}
		vr.Cover("sender report behind one for an unbound stream")
	}
	srBytes, merr := rtcp.Marshal(compound)
	vr.Assert(merr == nil, "sr marshals")
	rtcpR := it.BindRTCPReader(interceptor.RTCPReaderFunc(func(b []byte, at interceptor.Attributes) (int, interceptor.Attributes, error) {
		copy(b, srBytes)
		return len(srBytes), at, nil
	}))
	big := make([]byte, 256)
	_, _, rerr := rtcpR.Read(big, nil)
	vr.Assert(rerr == nil, "rtcp read passes through")
	vr.FireTickers(now)
	vr.Yield()
	vr.Assert(nrr == 2, "one receiver report per bound stream per tick")
	for k := 0; k < nrr && k < len(rrs); k++ {
		vr.Assert(len(rrs[k].Reports) == 1, "one reception report block")
		rep := rrs[k].Reports[0]
		switch rep.SSRC {
		case 1:
			vr.Cover("lossy stream reported")
			vr.Assert(rep.TotalLost == uint32(gap-1), "cumulative lost of stream 1")
			vr.Assert(uint32(rep.FractionLost) == uint32(gap-1)*256/uint32(gap+1), "fraction lost of stream 1 over its first interval")
			vr.Assert(rep.LastSenderReport == 0 && rep.Delay == 0, "no SR for stream 1: LSR/DLSR zero")
			vr.Assert(uint16(rep.LastSequenceNumber) == base+gap, "highest sequence number of stream 1")
		case 2:
			vr.Assert(rep.TotalLost == 0 && rep.FractionLost == 0, "stream 2 lost nothing")
			vr.Assert(rep.LastSenderReport == uint32(ntpv>>16), "LSR from the sender report addressed to stream 2")
			vr.Assert(uint16(rep.LastSequenceNumber) == base+2, "highest sequence number of stream 2")
		default:
			vr.Assert(false, "report names a bound stream")
		}
	}
	vr.Assert(it.Close() == nil, "close")
}
