//go:build verif

package report

import (
	"time"

	"github.com/pion/rtp"

	"github.com/pion/interceptor/internal/ntp"
	vr "github.com/pion/interceptor/internal/verifrt"
)

var c07epoch = time.Unix(1700000000, 0)

// HC07Step: one processRTP from an arbitrary stream state (inductive step), both option settings.
func HC07Step() {
	use := vr.NondetBool()
	s := newSenderStream(1, 90000, use)
	s.lastRTPTimeRTP = vr.NondetU32()
	s.lastRTPSN = vr.NondetU16()
	s.packetCount = vr.NondetU32()
	s.octetCount = vr.NondetU32()
	t0 := c07epoch.Add(time.Duration(vr.NondetInt(0, 1<<40)))
	s.lastRTPTimeTime = t0
	if s.packetCount == 0 {
		// no packet yet: the only reachable state is the constructor's
		s.lastRTPTimeRTP, s.lastRTPSN, s.octetCount = 0, 0, 0
		s.lastRTPTimeTime = time.Time{}
		t0 = time.Time{}
	}
	pc0, oc0, ts0, sn0 := s.packetCount, s.octetCount, s.lastRTPTimeRTP, s.lastRTPSN

	now := c07epoch.Add(time.Duration(vr.NondetInt(0, 1<<40)))
	hdr := &rtp.Header{SequenceNumber: vr.NondetU16(), Timestamp: vr.NondetU32()}
	n := vr.NondetInt(0, 1460)
	buf := make([]byte, 1460)
	s.processRTP(now, hdr, buf[:n])

	vr.Assert(s.packetCount == pc0+1, "packet count +1 (mod 2^32)")
	vr.Assert(s.octetCount == oc0+uint32(n), "octet count + payload length (mod 2^32)")
	d := hdr.SequenceNumber - sn0
	newer := d > 0 && d < 1<<15
	accept := use || pc0 == 0 || newer
	if accept {
		vr.Cover("reference candidate")
		vr.Assert(s.lastRTPSN == hdr.SequenceNumber, "sequence reference follows accepted packet")
		if pc0 == 0 {
			vr.Cover("first packet ever")
			vr.Assert(s.lastRTPTimeRTP == hdr.Timestamp && s.lastRTPTimeTime.Equal(now), "the first packet sets the timestamp reference, whatever its timestamp")
		} else if hdr.Timestamp != ts0 {
			vr.Cover("first packet of a frame")
			vr.Assert(s.lastRTPTimeRTP == hdr.Timestamp && s.lastRTPTimeTime.Equal(now), "reference moves to the first packet of a new frame")
		} else {
			vr.Assert(s.lastRTPTimeRTP == ts0 && s.lastRTPTimeTime.Equal(t0), "same frame: reference kept")
		}
	} else {
		vr.Cover("out of order")
		vr.Assert(s.lastRTPSN == sn0 && s.lastRTPTimeRTP == ts0 && s.lastRTPTimeTime.Equal(t0), "out-of-order send never moves the reference")
	}
}

// HC07Report: the report formula. elapsed = elbase + any value below 2^elbits ns (window), clock rate from the job.
func HC07Report() {
	rate := uint32(vr.Param("rate", 90000))
	s := newSenderStream(77, rate, false)
	s.lastRTPTimeRTP = vr.NondetU32()
	s.packetCount = vr.NondetU32()
	s.octetCount = vr.NondetU32()
	base := c07epoch.Add(time.Duration(vr.NondetInt(0, 1<<30)))
	s.lastRTPTimeTime = base
	el := vr.Param("elbase", 0) + vr.NondetInt(0, 1<<uint(vr.Param("elbits", 20))-1)
	now := base.Add(time.Duration(el))
	r := s.generateReport(now)
	vr.Assert(r.SSRC == 77 && r.PacketCount == s.packetCount && r.OctetCount == s.octetCount, "counts and SSRC copied")
	vr.Assert(r.NTPTime == ntp.ToNTP(now), "NTP time is the report instant")
	// integer reference: floor(el * rate / 1e9) ticks, tolerance one tick for float rounding
	ticks := uint32(uint64(el) * uint64(rate) / 1000000000)
	diff := r.RTPTime - (s.lastRTPTimeRTP + ticks)
	vr.Cover("report")
	vr.Assert(diff == 0 || diff == 1 || diff == 0xFFFFFFFF, "RTP time = reference + elapsed*rate (mod 2^32, within one tick)")
}
