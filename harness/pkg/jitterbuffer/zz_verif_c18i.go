//go:build verif

package jitterbuffer

import (
	"github.com/pion/interceptor"

	vr "github.com/pion/interceptor/internal/verifrt"
)

// HC18Interceptor: the jitter-buffer receiver interceptor with a small start count: packets of n
// bytes are read into a larger caller buffer; once playback starts each Read returns the bytes of
// the next packet in sequence with ITS length (not the size of the read buffer), and never more
// bytes than the caller's buffer holds.
func HC18Interceptor() {
	f, err := NewInterceptor()
	vr.Assert(err == nil, "factory")
	it, err := f.NewInterceptor("")
	vr.Assert(err == nil, "interceptor")
	ri := it.(*ReceiverInterceptor)
	ri.buffer = New(WithMinimumPacketCount(2))
	seq := uint16(0)
	n := 0
	pl0 := byte(0)
	rd := it.BindRemoteStream(&interceptor.StreamInfo{SSRC: 9}, interceptor.RTPReaderFunc(func(buf []byte, at interceptor.Attributes) (int, interceptor.Attributes, error) {
		pkt := [16]byte{0x80, 96, byte(seq >> 8), byte(seq), 0, 0, 0, 1, 0, 0, 0, 9, pl0, 2, 3, 4}
		copy(buf, pkt[:])
		for i := 16; i < len(buf); i++ {
			buf[i] = 0xAA // stale bytes of an earlier, longer packet
		}
		return n, at, nil
	}))
	base := vr.NondetU16()
	out := make([]byte, 40)
	// first packet: still buffering
	seq, n, pl0 = base, 12+vr.NondetInt(1, 4), vr.NondetU8()
	n0, p0 := n, pl0
	got, _, rerr := rd.Read(out, nil)
	vr.Assert(rerr != nil, "buffering: no packet is played out yet")
	_ = got
	// second packet: playback starts, the first packet is returned
	seq, n, pl0 = base+1, 12+vr.NondetInt(1, 4), vr.NondetU8()
	got, _, rerr = rd.Read(out, nil)
	vr.Cover("playout started")
	vr.Assert(rerr == nil, "playback started: a packet is returned")
	vr.Assert(got <= len(out), "never more bytes than the caller's buffer holds")
	vr.Assert(got == n0, "the returned length is the length of the packet that was read for that sequence number")
	vr.Assert(out[2] == byte(base>>8) && out[3] == byte(base) && out[12] == p0, "the first buffered packet is returned first, intact")
}
