//go:build verif

package jitterbuffer

import (
	"github.com/pion/rtp"

	vr "github.com/pion/interceptor/internal/verifrt"
)

// HC18Ops: bounded operation sequences on the real JitterBuffer against a list reference.
func HC18Ops() {
	m := uint16(vr.Param("min", 2))
	nops := vr.Param("ops", 5)
	span := vr.Param("span", 3)
	jb := New(WithMinimumPacketCount(m))

	var refSeq [8]uint16
	var refPkt [8]*rtp.Packet
	var alive [8]bool
	n := 0
	liveCount := func() int {
		c := 0
		for i := 0; i < n; i++ {
			if alive[i] {
				c++
			}
		}
		return c
	}
	base := vr.NondetU16()
	emitting := false   // reference: playback started
	var head uint16     // reference playout head once the first packet was pushed
	headSet := false
	took := func(p *rtp.Packet, wantSeq uint16, checkSeq bool) {
		found := -1
		for i := 0; i < n; i++ {
			if alive[i] && refPkt[i] == p {
				found = i
			}
		}
		vr.Assert(found >= 0, "returned packet was pushed, not returned before, not cleared")
		if found >= 0 {
			if checkSeq {
				vr.Assert(refSeq[found] == wantSeq && p.SequenceNumber == wantSeq, "returned packet has the requested sequence number")
			}
			alive[found] = false
		}
	}
	for op := 0; op < nops; op++ {
		before := liveCount()
		switch vr.NondetInt(0, 4) {
		case 0: // push
			seq := base + uint16(vr.NondetInt(0, span))
			p := &rtp.Packet{Header: rtp.Header{SequenceNumber: seq, Timestamp: uint32(seq) * 10}}
			if !headSet || (!emitting && before == 0) {
				head = seq
				headSet = true
			}
			jb.Push(p)
			refSeq[n], refPkt[n], alive[n] = seq, p, true
			n++
			if !emitting && liveCount() >= int(m) {
				emitting = true
				vr.Cover("playback started")
			}
		case 1: // pop at head
			p, err := jb.Pop()
			if !emitting {
				vr.Assert(err != nil && p == nil, "pop while buffering is refused")
				break
			}
			if err == nil {
				vr.Cover("pop succeeded")
				vr.Assert(p != nil, "successful pop returns a packet")
				took(p, head, true)
				head++
			} else {
				vr.Cover("pop failed")
				for i := 0; i < n; i++ {
					vr.Assert(!(alive[i] && refSeq[i] == head), "pop fails only when the head number is not buffered")
				}
			}
		case 2: // pop at sequence
			sq := base + uint16(vr.NondetInt(0, span))
			p, err := jb.PopAtSequence(sq)
			if !emitting {
				vr.Assert(err != nil && p == nil, "pop while buffering is refused")
				break
			}
			if err == nil {
				took(p, sq, true)
				head++ // documented behaviour of PopAtSequence: advances the head
			} else {
				for i := 0; i < n; i++ {
					vr.Assert(!(alive[i] && refSeq[i] == sq), "PopAtSequence fails only when the number is not buffered")
				}
			}
		case 3: // peek at sequence
			sq := base + uint16(vr.NondetInt(0, span))
			p, err := jb.PeekAtSequence(sq)
			if err == nil {
				found := false
				for i := 0; i < n; i++ {
					if alive[i] && refPkt[i] == p && refSeq[i] == sq {
						found = true
					}
				}
				vr.Assert(found, "peek returns only a buffered packet with that number")
			} else {
				for i := 0; i < n; i++ {
					vr.Assert(!(alive[i] && refSeq[i] == sq), "peek fails only when the number is not buffered")
				}
			}
		case 4: // clear
			jb.Clear(false)
			for i := 0; i < n; i++ {
				alive[i] = false
			}
			vr.Cover("cleared")
		}
		vr.Assert(int(jb.packets.Length()) == liveCount(), "Length equals the number of buffered packets")
		if headSet && emitting {
			vr.Assert(jb.PlayoutHead() == head, "playout head advances only on success")
		}
	}
}
