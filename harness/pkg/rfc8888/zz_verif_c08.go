//go:build verif

package rfc8888

import (
	"time"

	vr "github.com/pion/interceptor/internal/verifrt"
)

var c08epoch = time.Unix(1700000000, 0)

// HC08Offset: arrival time offset encoding for report-arrival = elbase + [0, 2^20) ns (window), or arrival after report.
func HC08Offset() {
	base := c08epoch.Add(time.Duration(vr.NondetInt(0, 1<<30)))
	if vr.Param("after", 0) != 0 {
		arr := base.Add(time.Duration(vr.NondetInt(1, 1<<40)))
		vr.Cover("arrival after report time")
		vr.Assert(getArrivalTimeOffset(base, arr) == 0x1FFF, "arrival after the report time: 0x1FFF")
		return
	}
	el := vr.Param("elbase", 0) + vr.NondetInt(0, 1<<20-1)
	arr := base.Add(-time.Duration(el))
	got := getArrivalTimeOffset(base, arr)
	units := uint64(el) * 1024 / 1000000000
	vr.Cover("offset")
	if units > 0x1FFD+1 {
		vr.Cover("too large")
		vr.Assert(got == 0x1FFE, "offset too large: 0x1FFE")
	} else if units < 0x1FFD {
		d := got - uint16(units)
		vr.Assert(d == 0 || d == 1 || d == 0xFFFF, "offset = floor(1024 * seconds) (within one unit)")
	} else {
		vr.Assert(got == 0x1FFD || got == 0x1FFE || got == 0x1FFC, "boundary")
	}
}

type c08rec struct {
	t    int64
	at   time.Time
	ecn  uint8
	live bool
}

// HC08History: one SSRC, bounded arrival histories with duplicates/reordering/wrap, two reports.
func HC08History() {
	npk := vr.Param("packets", 4)
	span := vr.Param("span", 4)
	r := NewRecorder()
	bases := [3]int64{1 << 17, 1<<17 + 65534, 1<<17 + 32766}
	base := bases[vr.Concretize(vr.NondetInt(0, 2))]
	var recs [8]c08rec
	n := 0
	cursor := int64(-1) // next sequence number to report (unwrapped); -1 before the first packet
	highest := int64(-1)
	t0 := c08epoch
	reportAt := vr.Concretize(vr.NondetInt(1, npk))
	report := func(now time.Time) {
		rep := r.BuildReport(now, 1400)
		vr.Assert(len(rep.ReportBlocks) == 1, "one block per stream")
		b := rep.ReportBlocks[0]
		vr.Assert(b.MediaSSRC == 7, "block names the stream")
		anyLive := false
		for j := 0; j < n; j++ {
			if recs[j].live {
				anyLive = true
			}
		}
		if !anyLive {
			vr.Cover("nothing new")
			vr.Assert(len(b.MetricBlocks) == 0, "nothing recorded: empty block")
			return
		}
		vr.Assert(b.BeginSequence == uint16(cursor), "range begins at the first unacknowledged number")
		vr.Assert(int64(len(b.MetricBlocks)) == highest-cursor+1, "contiguous range ending at the highest received")
		k := int64(vr.NondetInt(0, span*npk))
		if k < int64(len(b.MetricBlocks)) {
			x := cursor + k
			idx := -1
			for j := n - 1; j >= 0; j-- { // first copy wins
				if recs[j].live && recs[j].t == x {
					idx = j
				}
			}
			mb := b.MetricBlocks[k]
			if idx >= 0 {
				vr.Cover("received entry")
				vr.Assert(mb.Received, "arrived: marked received")
				vr.KnownFinding("C08-dup-overwrites", c08hasDup(&recs, n, idx))
				vr.Assert(uint8(mb.ECN) == recs[idx].ecn, "ECN of the first copy")
				vr.Assert(mb.ArrivalTimeOffset == getArrivalTimeOffset(now, recs[idx].at), "offset from the first copy's arrival")
			} else {
				vr.Cover("lost entry")
				vr.Assert(!mb.Received && mb.ArrivalTimeOffset == 0 && mb.ECN == 0, "not arrived: marked lost")
			}
		}
		// advance the acknowledged gap-free prefix
		for step := 0; step < span*npk+1; step++ {
			hit := false
			for j := 0; j < n; j++ {
				if recs[j].live && recs[j].t == cursor {
					hit = true
				}
			}
			if !hit {
				break
			}
			for j := 0; j < n; j++ {
				if recs[j].live && recs[j].t == cursor {
					recs[j].live = false
				}
			}
			cursor++
		}
	}
	for j := 0; j < npk; j++ {
		t := base + int64(vr.Concretize(vr.NondetInt(0, span)))
		at := t0.Add(time.Duration(vr.NondetInt(0, 1<<20)))
		ecn := uint8(vr.NondetInt(0, 3))
		if cursor < 0 {
			// the unwrapper floors at zero: a stream whose very first number is below the reordering
			// distance unwraps an older packet 2^16 ahead (documented corner, see C20) - excluded here
			vr.Assume(uint16(t) >= uint16(span))
		}
		r.AddPacket(at, 7, uint16(t), ecn)
		if cursor < 0 {
			cursor = t
		}
		if t >= cursor {
			recs[n] = c08rec{t: t, at: at, ecn: ecn, live: true}
			n++
			if t > highest {
				highest = t
			}
		} else {
			vr.Cover("late packet below the acknowledged prefix ignored")
		}
		if j+1 == reportAt {
			report(t0.Add(time.Duration(1<<20 + vr.NondetInt(0, 1<<20))))
		}
	}
	report(t0.Add(time.Duration(1<<21 + vr.NondetInt(0, 1<<20))))
}

func c08hasDup(recs *[8]c08rec, n, idx int) bool {
	d := false
	for j := 0; j < n; j++ {
		if j != idx && recs[j].live && recs[j].t == recs[idx].t {
			d = true
		}
	}
	return d
}

// HC08Budget: the marshalled report never exceeds maxSize (when it can hold the per-stream headers).
func HC08Budget() {
	streams := vr.Param("streams", 2)
	per := vr.Param("per", 3)
	r := NewRecorder()
	for s := 0; s < streams; s++ {
		for j := 0; j < per; j++ {
			r.AddPacket(c08epoch, uint32(10+s), uint16(100+2*j), 0) // every other packet: ranges of 2*per-1
		}
	}
	min := 12 + 8*streams
	maxSize := vr.NondetInt(min, min+4*per*streams+8)
	rep := r.BuildReport(c08epoch.Add(time.Second), maxSize)
	vr.Cover("built")
	vr.Assert(rep.MarshalSize() <= maxSize, "marshalled size within the configured maximum")
	// newest kept
	for s := 0; s < streams; s++ {
		b := rep.ReportBlocks[s]
		if len(b.MetricBlocks) > 0 {
			last := b.BeginSequence + uint16(len(b.MetricBlocks)) - 1
			vr.Assert(last == uint16(100+2*(per-1)), "range ends at the highest received (newest kept)")
		}
	}
}
