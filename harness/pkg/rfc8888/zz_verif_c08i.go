//go:build verif

package rfc8888

import (
	"time"

	"github.com/pion/interceptor"
	"github.com/pion/rtcp"

	vr "github.com/pion/interceptor/internal/verifrt"
)

// HC08Interceptor: the RFC 8888 sender interceptor end to end with a harness-controlled clock:
// two remote streams, reads with case-split sequence offsets (one read failing), a harness-fired
// tick: one report with one block per stream, each a contiguous range ending at the highest number
// read on that stream with exactly the read numbers marked received and offsets relative to the
// report instant; the marshalled report stays within the configured maximum.
func HC08Interceptor() {
	now := c08epoch
	f, err := NewSenderInterceptor(SenderNow(func() time.Time { return now }), SendInterval(time.Second))
	vr.Assert(err == nil, "factory")
	it, err := f.NewInterceptor("")
	vr.Assert(err == nil, "interceptor")
	var reps [4]*rtcp.CCFeedbackReport
	nrep := 0
	it.BindRTCPWriter(interceptor.RTCPWriterFunc(func(pkts []rtcp.Packet, _ interceptor.Attributes) (int, error) {
		for _, p := range pkts {
			r, ok := p.(*rtcp.CCFeedbackReport)
			vr.Assert(ok, "RFC 8888 sender writes congestion control feedback only")
			if ok && nrep < len(reps) {
				reps[nrep] = r
			}
			nrep++
		}
		return 0, nil
	}))
	vr.Yield()
	var seq uint16
	var ssrc byte
	failing := false
	mk := func() interceptor.RTPReader {
		return interceptor.RTPReaderFunc(func(b []byte, at interceptor.Attributes) (int, interceptor.Attributes, error) {
			if failing {
				return 0, nil, errTest
			}
			pkt := [12]byte{0x80, 96, byte(seq >> 8), byte(seq), 0, 0, 0, 1, 0, 0, 0, ssrc}
			copy(b, pkt[:])
			return 12, at, nil
		})
	}
	r1 := it.BindRemoteStream(&interceptor.StreamInfo{SSRC: 1}, mk())
	r2 := it.BindRemoteStream(&interceptor.StreamInfo{SSRC: 2}, mk())
	buf := make([]byte, 64)
	base := uint16(1000)
	var got [2][6]bool
	var at [2][6]time.Time
	var highest [2]int
	deliver := func(s, off int, fail bool) {
		seq, ssrc, failing = base+uint16(off), byte(s+1), fail
		now = now.Add(1500 * time.Microsecond) // concrete clock: the offset arithmetic itself is HC08Offset's subject
		r := r1
		if s == 1 {
			r = r2
		}
		_, _, rerr := r.Read(buf, nil)
		vr.Yield()
		if fail {
			vr.Assert(rerr != nil, "read error returned")
			return
		}
		vr.Assert(rerr == nil, "read passes through")
		if !got[s][off] {
			got[s][off], at[s][off] = true, now
		}
		if off > highest[s] {
			highest[s] = off
		}
	}
	deliver(0, 0, false)
	deliver(0, vr.Concretize(vr.NondetInt(1, 3)), false)
	deliver(0, 4, true)
	deliver(1, 0, false)
	deliver(1, 2, false)
	deliver(1, 2, false) // duplicate: the first arrival counts
	now = now.Add(7 * time.Millisecond)
	vr.FireTickers(now)
	vr.Yield()
	vr.Cover("report written")
	vr.Assert(nrep == 1, "one report per tick")
	rep := reps[0]
	vr.Assert(rep.MarshalSize() <= 1200, "report within the configured maximum size")
	vr.Assert(len(rep.ReportBlocks) == 2, "one block per stream")
	for _, b := range rep.ReportBlocks {
		vr.Assert(b.MediaSSRC == 1 || b.MediaSSRC == 2, "block names a bound stream")
		s := int(b.MediaSSRC) - 1
		if s < 0 || s > 1 {
			continue
		}
		vr.Assert(b.BeginSequence == base && len(b.MetricBlocks) == highest[s]+1, "contiguous range from the first number to the highest received")
		for i, mb := range b.MetricBlocks {
			if i < 6 && got[s][i] {
				vr.Assert(mb.Received && mb.ArrivalTimeOffset == getArrivalTimeOffset(now, at[s][i]), "received, with the offset of its first arrival relative to the report instant")
			} else {
				vr.Assert(!mb.Received, "numbers that were not read (or whose read failed) are reported lost")
			}
		}
	}
	vr.Assert(it.Close() == nil, "close")
	vr.Assert(vr.LiveThreads() == 0, "loop finished")
}

type c08err struct{}

func (c08err) Error() string { return "read failed" }

var errTest = c08err{}
