//go:build verif

package rfc8888

import vr "github.com/pion/interceptor/internal/verifrt"

// HC12StreamLog: the per-stream log holds only sequence numbers in [next, last]; after a report
// with a budget of b blocks it holds at most b entries; a fully acknowledged prefix is released.
func HC12StreamLog() {
	n := vr.Param("packets", 4)
	l := newStreamLog(7)
	for i := 0; i < n; i++ {
		off := vr.Concretize(vr.NondetInt(0, 5))
		l.add(c08epoch, uint16(1000+off), 0)
		vr.Assert(len(l.log) <= int(l.lastSequenceNumberReceived-l.nextSequenceNumberToReport+1), "log holds only numbers between the report pointer and the highest received")
	}
	b := int64(vr.Concretize(vr.NondetInt(1, 6)))
	blk := l.metricsAfter(c08epoch, b)
	vr.Assert(int64(len(blk.MetricBlocks)) <= b, "report respects the block budget")
	vr.Assert(int64(len(l.log)) <= b, "after a report the log holds at most the budgeted number of entries")
	for k := range l.log {
		vr.Assert(k >= l.nextSequenceNumberToReport && k <= l.lastSequenceNumberReceived, "no entry below the report pointer survives")
	}
	vr.Cover("reported")
}
