//go:build verif

package pacing

import (
	"time"

	"github.com/pion/interceptor"
	"github.com/pion/rtp"

	vr "github.com/pion/interceptor/internal/verifrt"
)

// c17limiter is a contract stub of the token bucket: Budget answers "plenty" or "nothing"
// (nondeterministically), AllowN records what was charged.
type c17limiter struct {
	lastBudgetAt  time.Time
	lastBudget    float64
	budgetFresh   bool
	charged       [8]int
	ncharged      int
	protocolError bool
}

func (l *c17limiter) SetRate(rate, burst int) {}
func (l *c17limiter) Budget(now time.Time) float64 {
	l.lastBudgetAt = now
	l.budgetFresh = true
	if vr.NondetBool() {
		l.lastBudget = 1e9
	} else {
		l.lastBudget = 0
	}
	return l.lastBudget
}
func (l *c17limiter) AllowN(now time.Time, n int) bool {
	// contract: charged only right after a Budget(now) at the same instant that covers n
	if !l.budgetFresh || !l.lastBudgetAt.Equal(now) || !(l.lastBudget > float64(n)) {
		l.protocolError = true
	}
	l.budgetFresh = false
	if l.ncharged < len(l.charged) {
		l.charged[l.ncharged] = n
	}
	l.ncharged++
	return true
}

type c17rec struct {
	stream int
	csrc   uint32
	seq    uint16
	b0, b1 byte
	n      int
}

// HC17Pacing: the pacing interceptor with a contract-stub limiter: accepted packets leave once, in
// acceptance order, intact (the caller scribbles its buffers after Write), each release is charged
// to the limiter per the protocol; Close ends the loop.
func HC17Pacing() {
	npk := vr.Param("packets", 3)
	lim := &c17limiter{}
	f := NewInterceptor(Interval(5*time.Millisecond), setPacerFactory(func(int, int) pacer { return lim }))
	i, err := f.NewInterceptor("x")
	vr.Assert(err == nil, "constructs")
	var out [8]c17rec
	nout := 0
	mk := func(stream int) interceptor.RTPWriter {
		return interceptor.RTPWriterFunc(func(h *rtp.Header, p []byte, _ interceptor.Attributes) (int, error) {
			if nout < len(out) {
				r := c17rec{stream: stream, seq: h.SequenceNumber, n: len(p)}
				if len(h.CSRC) == 1 {
					r.csrc = h.CSRC[0]
				}
				if len(p) > 0 {
					r.b0 = p[0]
				}
				if len(p) > 1 {
					r.b1 = p[1]
				}
				out[nout] = r
			}
			nout++
			return len(p), nil
		})
	}
	w0 := i.BindLocalStream(&interceptor.StreamInfo{SSRC: 1}, mk(0))
	w1 := i.BindLocalStream(&interceptor.StreamInfo{SSRC: 2}, mk(1))
	var acc [8]c17rec
	buf := make([]byte, 2)
	hdr := &rtp.Header{Version: 2, CSRC: []uint32{0}}
	now := time.Unix(1700000000, 0)
	for k := 0; k < npk; k++ {
		b := vr.NondetBytes(2)
		n := vr.Concretize(vr.NondetInt(0, 2))
		buf[0], buf[1] = b[0], b[1]
		hdr.SequenceNumber = uint16(100 + k)
		cs := vr.NondetU32()
		hdr.CSRC[0] = cs
		st := 0
		w := w0
		if vr.NondetBool() {
			st, w = 1, w1
		}
		got, werr := w.Write(hdr, buf[:n], nil)
		vr.Assert(werr == nil && got == 16+n, "packet accepted")
		acc[k] = c17rec{stream: st, csrc: cs, seq: uint16(100 + k), n: n}
		if n > 0 {
			acc[k].b0 = b[0]
		}
		if n > 1 {
			acc[k].b1 = b[1]
		}
		buf[0], buf[1] = 0xEE, 0xEE // caller reuses its buffers
		hdr.SequenceNumber = 0xEEEE
		hdr.CSRC[0] = 0xEEEEEEEE
		if vr.NondetBool() {
			now = now.Add(5 * time.Millisecond)
			vr.FireTickers(now)
			vr.Yield()
		}
	}
	check := func() {
		vr.Assert(nout <= npk, "never more packets out than accepted")
		vr.Assert(!lim.protocolError, "every AllowN follows a covering Budget at the same instant")
		vr.Assert(lim.ncharged == nout, "exactly one write per charge")
		for k := 0; k < npk; k++ {
			if k < nout {
				vr.Assert(out[k] == acc[k], "released in acceptance order, intact, to its own stream's writer")
				vr.Assert(lim.charged[k] == 8*(16+acc[k].n), "charged the packet's size in bits")
			}
		}
	}
	vr.Yield()
	check()
	// enough ticks with budget: everything is delivered exactly once
	for t := 0; t < npk+1; t++ {
		now = now.Add(5 * time.Millisecond)
		vr.FireTickers(now)
		vr.Yield()
	}
	check()
	if nout == npk {
		vr.Cover("all delivered")
	}
	vr.Assert(i.Close() == nil, "close")
	vr.Assert(vr.LiveThreads() == 0, "loop goroutine finished at Close")
	before := nout
	_, _ = w0.Write(hdr, buf[:1], nil) // returns (accepted or refused) without blocking
	vr.Yield()
	vr.Assert(nout == before, "nothing is written after Close")
}
