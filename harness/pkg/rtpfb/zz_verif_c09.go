//go:build verif

package rtpfb

import (
	"time"

	"github.com/pion/interceptor/pkg/twcc"
	"github.com/pion/rtcp"

	vr "github.com/pion/interceptor/internal/verifrt"
)

// HC09Rtpfb: feedback built by the library's own TWCC recorder goes through rtpfb's converter and
// history over two successive feedbacks: the aggregated reports list each sent packet at most once,
// in send order, with its recorded size/departure and the arrival the recorder saw.
func HC09Rtpfb() {
	bases := [2]uint16{100, 65533}
	base := bases[vr.Concretize(vr.NondetInt(0, 1))]
	it := &Interceptor{history: newHistory()}
	dep := time.Unix(1700000000, 0)
	for i := 0; i < 5; i++ {
		it.history.addOutgoing(77, uint16(500+i), true, base+uint16(i), 100+i, dep.Add(time.Duration(i)*time.Millisecond))
	}
	rec := twcc.NewRecorder(5)
	var arrived [5]bool
	var at [5]int64
	now := int64(5_000_000)
	steps := [3]int64{130, 20000, 70000}
	var reported [5]int
	lastCounter := int64(-1)
	round := func(from, to int) {
		for i := from; i < to; i++ {
			arrived[i] = i == from || vr.Concretize(vr.NondetInt(0, 1)) == 1
			if !arrived[i] {
				continue
			}
			now += steps[vr.Concretize(vr.NondetInt(0, 2))]
			at[i] = now
			rec.Record(9, base+uint16(i), now)
		}
		pkts := rec.BuildFeedbackPacket()
		var rpkts []rtcp.Packet
		rpkts = append(rpkts, pkts...)
		_, reps := it.processFeedback(dep.Add(time.Second), rpkts)
		for _, r := range reps {
			i := int(r.SequenceNumber)
			vr.Assert(i >= 0 && i < 5 && r.TWCCSequenceNumber == base+uint16(i) && r.RTPSequenceNumber == uint16(500+i), "report names a packet that was really sent")
			vr.Assert(int64(r.SequenceNumber) > lastCounter, "reports come in send order, each packet at most once")
			lastCounter = int64(r.SequenceNumber)
			if i < 0 || i >= 5 {
				continue
			}
			reported[i]++
			vr.Assert(r.Size == 100+i && r.Departure.Equal(dep.Add(time.Duration(i)*time.Millisecond)), "recorded size and departure")
			if arrived[i] {
				d := r.Arrival.Sub(time.Time{}) - time.Duration(at[i])*time.Microsecond
				vr.Assert(r.Arrived && d >= -125*time.Microsecond && d <= 125*time.Microsecond, "arrival as recorded by the receiver, within the wire resolution")
			} else {
				vr.Assert(!r.Arrived, "not received packets are reported lost")
			}
		}
	}
	round(0, 3)
	round(3, 5)
	vr.Cover("two feedbacks")
	for i := 0; i < 5; i++ {
		vr.Assert(reported[i] <= 1, "each sent packet is reported at most once across all reports")
	}
	vr.Assert(reported[0] == 1 && reported[3] == 1, "acknowledged packets are reported")
}

// HC09ConvertTWCC: rtpfb's TWCC converter on a status-vector chunk with every 2-bit symbol
// (not received, small delta, large delta, received without delta): one acknowledgement per status
// inside the count, each with the status and arrival time the feedback encodes for that number.
func HC09ConvertTWCC() {
	count := vr.Concretize(vr.NondetInt(1, 5))
	base := vr.NondetU16()
	refT := uint32(vr.NondetInt(0, 1<<24-1))
	fb := &rtcp.TransportLayerCC{BaseSequenceNumber: base, PacketStatusCount: uint16(count), ReferenceTime: refT}
	list := make([]uint16, 7)
	var sym [7]uint16
	var delta [7]int64
	for i := 0; i < 7; i++ {
		if i < count {
			sym[i] = uint16(vr.Concretize(vr.NondetInt(0, 3)))
		}
		list[i] = sym[i]
		if i < count && (sym[i] == rtcp.TypeTCCPacketReceivedSmallDelta || sym[i] == rtcp.TypeTCCPacketReceivedLargeDelta) {
			delta[i] = int64(vr.NondetInt(-32768, 32767)) * 250
			fb.RecvDeltas = append(fb.RecvDeltas, &rtcp.RecvDelta{Type: sym[i], Delta: delta[i]})
		}
	}
	fb.PacketChunks = []rtcp.PacketStatusChunk{&rtcp.StatusVectorChunk{Type: rtcp.TypeTCCStatusVectorChunk, SymbolSize: rtcp.TypeTCCSymbolSizeTwoBit, SymbolList: list}}
	acks := convertTWCC(fb)
	vr.Cover("converted")
	vr.Assert(len(acks) == count, "one acknowledgement per status inside the declared count")
	ref := time.Time{}.Add(time.Duration(refT) * 64 * time.Millisecond)
	for i := 0; i < count && i < len(acks); i++ {
		a := acks[i]
		vr.Assert(a.sequenceNumber == base+uint16(i), "acknowledgements follow the sequence numbers from the base")
		switch sym[i] {
		case rtcp.TypeTCCPacketNotReceived:
			vr.Assert(!a.arrived && a.arrival.IsZero(), "not received")
		case rtcp.TypeTCCPacketReceivedWithoutDelta:
			vr.Cover("received without delta")
			vr.Assert(a.arrived && a.arrival.IsZero(), "received without delta: arrived, no arrival time, no delta consumed")
		default:
			ref = ref.Add(time.Duration(delta[i]) * time.Microsecond)
			vr.Assert(a.arrived && a.arrival.Equal(ref), "arrival = reference + sum of the deltas of the received statuses up to this one")
		}
	}
}
