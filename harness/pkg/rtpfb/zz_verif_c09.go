//go:build verif

package rtpfb

import (
	"time"

	"github.com/pion/interceptor/pkg/twcc"
	"github.com/pion/rtcp"

	vr "github.com/pion/interceptor/internal/verifrt"
)

// HC09Rtpfb: feedback built by the library's own TWCC recorder goes through rtpfb's converter and
// history over two successive feedbacks: the aggregated reports list each sent packet at most once,
// in send order, with its recorded size/departure and the arrival the recorder saw.
func HC09Rtpfb() {
	bases := [2]uint16{100, 65533}
	base := bases[vr.Concretize(vr.NondetInt(0, 1))]
	it := &Interceptor{history: newHistory()}
	dep := time.Unix(1700000000, 0)
	for i := 0; i < 5; i++ {
		it.history.addOutgoing(77, uint16(500+i), true, base+uint16(i), 100+i, dep.Add(time.Duration(i)*time.Millisecond))
	}
	rec := twcc.NewRecorder(5)
	var arrived [5]bool
	var at [5]int64
	now := int64(5_000_000)
	steps := [3]int64{130, 20000, 70000}
	var reported [5]int
	lastCounter := int64(-1)
	round := func(from, to int) {
		for i := from; i < to; i++ {
			arrived[i] = i == from || vr.Concretize(vr.NondetInt(0, 1)) == 1
			if !arrived[i] {
				continue
			}
			now += steps[vr.Concretize(vr.NondetInt(0, 2))]
			at[i] = now
			rec.Record(9, base+uint16(i), now)
		}
		pkts := rec.BuildFeedbackPacket()
		var rpkts []rtcp.Packet
		rpkts = append(rpkts, pkts...)
		_, reps := it.processFeedback(dep.Add(time.Second), rpkts)
		for _, r := range reps {
			i := int(r.SequenceNumber)
			vr.Assert(i >= 0 && i < 5 && r.TWCCSequenceNumber == base+uint16(i) && r.RTPSequenceNumber == uint16(500+i), "report names a packet that was really sent")
			vr.Assert(int64(r.SequenceNumber) > lastCounter, "reports come in send order, each packet at most once")
			lastCounter = int64(r.SequenceNumber)
			if i < 0 || i >= 5 {
				continue
			}
			reported[i]++
			vr.Assert(r.Size == 100+i && r.Departure.Equal(dep.Add(time.Duration(i)*time.Millisecond)), "recorded size and departure")
			if arrived[i] {
				d := r.Arrival.Sub(time.Time{}) - time.Duration(at[i])*time.Microsecond
				vr.Assert(r.Arrived && d >= -125*time.Microsecond && d <= 125*time.Microsecond, "arrival as recorded by the receiver, within the wire resolution")
			} else {
				vr.Assert(!r.Arrived, "not received packets are reported lost")
			}
		}
	}
	round(0, 3)
	round(3, 5)
	vr.Cover("two feedbacks")
	for i := 0; i < 5; i++ {
		vr.Assert(reported[i] <= 1, "each sent packet is reported at most once across all reports")
	}
	vr.Assert(reported[0] == 1 && reported[3] == 1, "acknowledged packets are reported")
}
