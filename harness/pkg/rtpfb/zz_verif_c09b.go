//go:build verif

package rtpfb

import (
	"time"

	"github.com/pion/interceptor"
	"github.com/pion/interceptor/internal/ntp"
	"github.com/pion/rtcp"
	"github.com/pion/rtp"

	vr "github.com/pion/interceptor/internal/verifrt"
)

// HC09CCFB: the RFC 8888 path of the aggregating receiver, through the public Bind* API. Packets are
// written on two non-TWCC streams in a solver-chosen interleaving (one stream wraps its sequence
// numbers); two marshalled CCFeedbackReport packets with arbitrary begin sequence, block count,
// received bits, ECN marks and arrival time offsets (one report block per SSRC, one of them possibly
// about an SSRC never sent) are read through the bound RTCP reader. Every PacketReport in the
// rtpfb.Report found in the returned attributes must name a packet that was written, with its size and
// departure, in send order, at most once over both reports, and carry exactly what the feedback
// encodes for (SSRC, sequence number): received bit, ECN, and report time minus offset/1024 s.
func HC09CCFB() {
	const n = 5
	now := time.Unix(1700000000, 250_000_000)
	f, _ := NewInterceptor(timeFactory(func() time.Time { return now }))
	ii, _ := f.NewInterceptor("")
	it := ii.(*Interceptor)
	sink := interceptor.RTPWriterFunc(func(h *rtp.Header, p []byte, _ interceptor.Attributes) (int, error) { return len(p), nil })
	ssrcs := [2]uint32{77, 78}
	seqBase := [2]uint16{10, 65534}
	var w [2]interceptor.RTPWriter
	for s := 0; s < 2; s++ {
		w[s] = it.BindLocalStream(&interceptor.StreamInfo{SSRC: ssrcs[s]}, sink)
	}
	var sentStream [n]int
	var sentSeq [n]uint16
	var sentAt [n]time.Time
	var sentSize [n]int
	var cnt [2]int
	pats := [4][n]uint8{{0, 1, 0, 1, 0}, {0, 0, 1, 1, 1}, {1, 0, 0, 0, 1}, {0, 0, 0, 0, 0}}
	pat := vr.Param("pat", -1)
	if pat < 0 {
		pat = vr.Concretize(vr.NondetInt(0, vr.Param("pats", 3)-1))
	}
	for i := 0; i < n; i++ {
		s := int(pats[pat][i])
		sentStream[i] = s
		sentSeq[i] = seqBase[s] + uint16(cnt[s])
		cnt[s]++
		now = now.Add(time.Millisecond)
		sentAt[i] = now
		h := &rtp.Header{Version: 2, SSRC: ssrcs[s], SequenceNumber: sentSeq[i]}
		sentSize[i] = h.MarshalSize() + 20 + i
		_, _ = w[s].Write(h, make([]byte, 20+i), nil)
	}
	vr.Cover("sent")

	var raw []byte
	reader := it.BindRTCPReader(interceptor.RTCPReaderFunc(func(b []byte, a interceptor.Attributes) (int, interceptor.Attributes, error) {
		return copy(b, raw), a, nil
	}))
	var reported [n]int
	last := int64(-1)
	fbSSRC := [3]uint32{77, 78, 99}
	offs := [3]uint16{0, 1, 3}
	round := func(full bool) {
		now = now.Add(50 * time.Millisecond)
		rts := ntp.ToNTP32(now)
		fb := &rtcp.CCFeedbackReport{SenderSSRC: 1, ReportTimestamp: rts}
		// one block per SSRC, in a chosen order, possibly a block about an unknown SSRC
		first, nblocks := 0, 1
		allAck := false
		if full {
			first = vr.Concretize(vr.NondetInt(0, 2))
			nblocks = vr.Concretize(vr.NondetInt(vr.Param("minblocks", 1), 2))
		} else if vr.Param("r2", 0) == 1 {
			first = vr.Concretize(vr.NondetInt(0, 2))
		} else {
			// second report: both streams acknowledged from their first sequence number on
			allAck, nblocks = true, 2
		}
		var begin [2]uint16
		var cntb [2]int
		var bssrc [2]uint32
		var recv [2][n]bool
		var ecn [2][n]rtcp.ECN
		var ato [2][n]uint16
		for b := 0; b < nblocks; b++ {
			bssrc[b] = fbSSRC[(first+b)%3]
			if !allAck {
				begin[b] = offs[vr.Concretize(vr.NondetInt(0, vr.Param("noffs", 3)-1))]
			} else {
				begin[b] = 1
			}
			if bssrc[b] == 78 {
				begin[b] += 65533
			} else {
				begin[b] += 9
			}
			if allAck {
				cntb[b] = n
			} else {
				cntb[b] = vr.Concretize(vr.NondetInt(vr.Param("mincnt", 2), vr.Param("maxcnt", 2)))
			}
			rb := rtcp.CCFeedbackReportBlock{MediaSSRC: bssrc[b], BeginSequence: begin[b]}
			for j := 0; j < cntb[b]; j++ {
				recv[b][j] = allAck || vr.NondetBool()
				ecn[b][j] = rtcp.ECN(vr.NondetInt(0, 3))
				ato[b][j] = uint16(vr.NondetInt(0, 0x1FFF))
				rb.MetricBlocks = append(rb.MetricBlocks, rtcp.CCFeedbackMetricBlock{Received: recv[b][j], ECN: ecn[b][j], ArrivalTimeOffset: ato[b][j]})
			}
			fb.ReportBlocks = append(fb.ReportBlocks, rb)
		}
		ref := ntp.ToTime32(rts, now)
		var reps []PacketReport
		if allAck && vr.Param("wire2", 0) == 0 {
			// the second report is handed over decoded (the wire path is exercised by the first)
			_, reps = it.processFeedback(now, []rtcp.Packet{fb})
		} else {
			var err error
			raw, err = fb.Marshal()
			vr.Assert(err == nil, "library marshals its own RFC 8888 report")
			buf := make([]byte, 1500)
			nn, attr, err := reader.Read(buf, nil)
			vr.Assert(err == nil && nn == len(raw), "well-formed feedback is accepted")
			if attr != nil {
				if v := attr.Get(CCFBAttributesKey); v != nil {
					reps = v.(Report).PacketReports
				}
			}
		}
		hi := -1
		for i := 0; i < n; i++ {
			for b := 0; b < nblocks; b++ {
				j := int(sentSeq[i] - begin[b])
				if bssrc[b] == ssrcs[sentStream[i]] && j < cntb[b] && recv[b][j] && reported[i] == 0 {
					hi = i
				}
			}
		}
		seen := 0
		for _, r := range reps {
			i := int(r.SequenceNumber)
			vr.Assert(int64(r.SequenceNumber) > last && i < n, "reports name written packets, in send order, each at most once")
			last = int64(r.SequenceNumber)
			if i < 0 || i >= n {
				continue
			}
			seen++
			reported[i]++
			vr.Assert(r.SSRC == ssrcs[sentStream[i]] && r.RTPSequenceNumber == sentSeq[i] && !r.IsTWCC, "report carries the SSRC and RTP sequence number written")
			vr.Assert(r.Size == sentSize[i] && r.Departure.Equal(sentAt[i]), "report carries the recorded size and departure")
			found := false
			for b := 0; b < nblocks; b++ {
				j := int(sentSeq[i] - begin[b])
				if bssrc[b] != r.SSRC || j >= cntb[b] {
					continue
				}
				found = true
				if !recv[b][j] {
					vr.Assert(!r.Arrived && r.Arrival.IsZero() && r.ECN == 0, "block marked not received")
					continue
				}
				vr.Cover("received block matched")
				vr.Assert(r.Arrived && r.ECN == ecn[b][j], "received bit and ECN of the block for this sequence number")
				if ato[b][j] == 0x1FFF {
					vr.Assert(r.Arrival.IsZero(), "0x1FFF: no arrival time")
				} else {
					off := time.Duration(ato[b][j]) * time.Second / 1024
					want := ref.Add(-off)
					vr.Assert(r.Arrival.Equal(want), "arrival = report timestamp - offset/1024 s")
				}
			}
			if !found {
				vr.Assert(!r.Arrived && r.Arrival.IsZero(), "a packet the feedback does not cover is never reported as arrived")
			}
		}
		if hi >= 0 {
			vr.Assert(len(reps) > 0 && reported[hi] == 1, "a newly acknowledged packet is in the report")
		}
	}
	round(true)
	round(false)
	vr.Cover("two reports")
	for i := 0; i < n; i++ {
		vr.Assert(reported[i] <= 1, "each written packet is reported at most once across all reports")
	}
}
