//go:build verif

package rtpfb

import (
	"time"

	"github.com/pion/rtcp"

	vr "github.com/pion/interceptor/internal/verifrt"
)

// HC02RawTWCC: raw bytes of a 24-byte transport-wide-CC feedback packet (symbolic base sequence
// number, status count, reference time, ONE arbitrary 16-bit status chunk and two arbitrary trailing
// bytes) through the real rtcp.Unmarshal and, if it parses, through rtpfb's converter and history.
// (The parser yields a delta for every received symbol of a status-vector chunk, padding symbols
// included, and min(count, run length) deltas for a received run-length chunk: the structured
// harnesses allow any number of deltas from 0 up to the number of received symbols.)
func HC02RawTWCC() {
	body := vr.NondetBytes(10) // base(2) count(2) ref(3) fbcount(1) ... chunk(2) handled below
	chunk := vr.NondetBytes(2)
	tail := vr.NondetBytes(2)
	vr.Assume(body[2] == 0 && body[3] <= 8) // packet status count 0..8
	// run-length chunks: run length <= 16 (a long run is legitimate and only makes decoder loops long)
	vr.Assume(chunk[0]&0x80 != 0 || (chunk[0]&0x1F == 0 && chunk[1] <= 16))
	raw := []byte{0x8F, 205, 0, 5, 0, 0, 0, 1, 0, 0, 0, 2,
		body[0], body[1], body[2], body[3], body[4], body[5], body[6], body[7],
		chunk[0], chunk[1], tail[0], tail[1]}
	pkts, err := rtcp.Unmarshal(raw)
	if err != nil {
		vr.Cover("rejected by the parser")
		return
	}
	vr.Cover("parsed")
	vr.Assert(len(pkts) == 1, "one packet")
	fb, ok := pkts[0].(*rtcp.TransportLayerCC)
	vr.Assert(ok, "parsed as transport-wide-CC feedback")
	vr.Assert(len(fb.RecvDeltas) <= 14, "parser yields at most one delta per symbol of the chunk")
	it := &Interceptor{history: newHistory()}
	it.history.addOutgoing(1, 1, true, fb.BaseSequenceNumber, 100, time.Unix(1700000000, 0))
	_, reps := it.processFeedback(time.Unix(1700000001, 0), pkts)
	vr.Assert(len(reps) <= 1, "at most the one sent packet is reported")
}
