//go:build verif

package rtpfb

import (
	"time"

	vr "github.com/pion/interceptor/internal/verifrt"
)

// HC12History: after every sent packet has been acknowledged and reported, the history holds no
// entry for it any more (maps keyed by counter, TWCC number and (SSRC, sequence number)); a second
// identical phase leaves the same sizes (no growth with the number of packets).
func HC12History() {
	n := vr.Param("packets", 3)
	twcc := vr.Param("twcc", 1) != 0
	h := newHistory()
	t0 := time.Unix(1700000000, 0)
	base := vr.NondetU16()
	sizes := [2][3]int{}
	for phase := 0; phase < 2; phase++ {
		for i := 0; i < n; i++ {
			seq := base + uint16(phase*n+i)
			h.addOutgoing(77, seq, twcc, seq, 100, t0)
		}
		for i := 0; i < n; i++ {
			seq := base + uint16(phase*n+i)
			ack := acknowledgement{sequenceNumber: seq, arrived: true, arrival: t0}
			var ok bool
			if twcc {
				_, ok = h.onTWCCFeedback(t0, ack)
			} else {
				_, ok = h.onCCFBFeedback(t0, 77, ack)
			}
			vr.Assert(ok, "ack for a sent packet is accepted")
		}
		rep := h.buildReport()
		vr.Assert(len(rep) == n, "every acknowledged packet reported once")
		sizes[phase] = [3]int{len(h.packets), len(h.twccToCounter), len(h.ssrcSeqNrToCounter)}
		vr.Cover("phase reported")
	}
	vr.Assert(sizes[0] == sizes[1], "retained entries do not grow from one equal phase to the next")
	vr.Assert(sizes[1][0] == 0 && sizes[1][1] == 0 && sizes[1][2] == 0, "reported packets are released")
	// reported packets are not reported again
	vr.Assert(len(h.buildReport()) == 0, "each sent packet is reported at most once")
}
