//go:build verif

package rtpfb

import (
	"github.com/pion/rtcp"

	vr "github.com/pion/interceptor/internal/verifrt"
)

// c02TWCC builds a structurally inconsistent but parseable TWCC feedback: what rtcp.Unmarshal
// guarantees (P_U) is only: one delta per received symbol among the first PacketStatusCount
// statuses; run lengths are free 13-bit values; vector chunks always carry 7 (2-bit) symbols.
func c02TWCC(kind int) *rtcp.TransportLayerCC {
	count := vr.NondetInt(0, 4)
	fb := &rtcp.TransportLayerCC{BaseSequenceNumber: vr.NondetU16(), PacketStatusCount: uint16(count), ReferenceTime: uint32(vr.NondetInt(0, 1<<24-1))}
	nrecv := 0
	if kind == 0 {
		sym := uint16(vr.Concretize(vr.NondetInt(0, 3)))
		run := vr.NondetInt(0, 12) // may exceed the status count
		fb.PacketChunks = []rtcp.PacketStatusChunk{&rtcp.RunLengthChunk{Type: rtcp.TypeTCCRunLengthChunk, PacketStatusSymbol: sym, RunLength: uint16(run)}}
		if sym == rtcp.TypeTCCPacketReceivedSmallDelta || sym == rtcp.TypeTCCPacketReceivedLargeDelta {
			nrecv = count
			if run < count {
				nrecv = run
			}
		}
	} else {
		list := make([]uint16, 7)
		for i := 0; i < 7; i++ {
			list[i] = uint16(vr.NondetInt(0, 3))
			if list[i] == rtcp.TypeTCCPacketReceivedSmallDelta || list[i] == rtcp.TypeTCCPacketReceivedLargeDelta {
				nrecv++ // the parser yields deltas for received padding symbols too
			}
		}
		fb.PacketChunks = []rtcp.PacketStatusChunk{&rtcp.StatusVectorChunk{Type: rtcp.TypeTCCStatusVectorChunk, SymbolSize: rtcp.TypeTCCSymbolSizeTwoBit, SymbolList: list}}
	}
	// as many deltas as received symbols inside the status count (what rtcp.Unmarshal yields), or fewer
	n := vr.Concretize(vr.NondetInt(0, vr.Concretize(nrecv)))
	for i := 0; i < n; i++ {
		fb.RecvDeltas = append(fb.RecvDeltas, &rtcp.RecvDelta{Type: rtcp.TypeTCCPacketReceivedSmallDelta, Delta: int64(vr.NondetInt(0, 255)) * 250})
	}
	return fb
}

// HC02ConvertTWCC: no parseable TWCC feedback makes the rtpfb converter panic / index out of bounds.
func HC02ConvertTWCC() {
	fb := c02TWCC(vr.Param("kind", 0))
	acks := convertTWCC(fb)
	vr.Cover("converted")
	vr.Assert(len(acks) <= 13, "bounded output")
}
