//go:build verif

package gcc

import (
	"time"

	"github.com/pion/interceptor"
	"github.com/pion/rtp"

	vr "github.com/pion/interceptor/internal/verifrt"
)

// HC02LeakyBucketSize: an outgoing packet of ANY payload length 0..maxlen through the leaky bucket
// pacer (Write on the caller, release on the pacer goroutine at the next tick): no panic in either
// goroutine, the packet leaves once with its length, and the pacer keeps working afterwards.
// Also the C13/C17 clauses for this pacer: the caller scribbles its buffers after Write.
func HC02LeakyBucketSize() {
	maxlen := vr.Param("maxlen", 2000)
	p := NewLeakyBucketPacer(10_000_000)
	type rec struct {
		n      int
		b0, bl byte
		seq    uint16
	}
	var out [4]rec
	nout := 0
	p.AddStream(7, interceptor.RTPWriterFunc(func(h *rtp.Header, pl []byte, _ interceptor.Attributes) (int, error) {
		if nout < len(out) {
			r := rec{n: len(pl), seq: h.SequenceNumber}
			if len(pl) > 1 {
				r.b0, r.bl = pl[0], pl[1]
			}
			out[nout] = r
		}
		nout++
		return len(pl) + 12, nil
	}))
	vr.Yield() // let Run start and park on its ticker
	n := vr.NondetInt(0, maxlen)
	buf := make([]byte, maxlen)
	first, last := vr.NondetU8(), vr.NondetU8()
	buf[0], buf[1] = first, last
	hdr := &rtp.Header{Version: 2, SSRC: 7, SequenceNumber: 41}
	got, err := p.Write(hdr, buf[:n], nil)
	if err == nil {
		vr.Cover("accepted")
		vr.Assert(got == 12+n, "Write reports header + payload length")
	}
	buf[0], buf[1] = 0xEE, 0xEE // the caller reuses its buffer
	hdr.SequenceNumber = 0xEEEE
	now := time.Unix(1800000000, 0)
	vr.FireTickers(now)
	vr.Yield()
	if err == nil {
		vr.Assert(nout == 1, "accepted packet handed to its stream's writer exactly once")
		vr.Assert(out[0].n == n && out[0].seq == 41, "with the length and header it had when accepted")
		if n > 1 {
			vr.Assert(out[0].b0 == first && out[0].bl == last, "with the payload bytes it had when accepted")
		}
	} else {
		vr.Cover("rejected")
		vr.Assert(nout == 0, "a rejected packet is not sent")
	}
	// keeps working
	_, err2 := p.Write(&rtp.Header{Version: 2, SSRC: 7, SequenceNumber: 42}, buf[:1], nil)
	vr.Assert(err2 == nil, "pacer keeps accepting well-formed packets")
	vr.FireTickers(now.Add(5 * time.Millisecond))
	vr.Yield()
	vr.Assert(out[nout-1].seq == 42, "and keeps delivering them")
	vr.Assert(p.Close() == nil, "close")
	vr.Yield()
	vr.Assert(vr.LiveThreads() == 0, "pacer goroutine finished at Close")
}
