//go:build verif

package gcc

import (
	"time"

	"github.com/pion/interceptor"
	"github.com/pion/rtp"

	vr "github.com/pion/interceptor/internal/verifrt"
)

// HC11PacerClose (property C11): the leaky bucket pacer (the default pacer of the gcc bandwidth
// estimator behind the cc interceptor): with a packet queued and a tick pending or not, Close returns
// only after the pacing goroutine has finished, and nothing is handed to the RTP writer once Close
// has returned. The select between "done" and the pending tick is explored both ways.
func HC11PacerClose() {
	before := vr.LiveThreads()
	p := NewLeakyBucketPacer(10_000_000)
	nout := 0
	p.AddStream(7, interceptor.RTPWriterFunc(func(h *rtp.Header, pl []byte, _ interceptor.Attributes) (int, error) {
		nout++
		return len(pl) + 12, nil
	}))
	vr.Yield() // Run starts and parks on its ticker
	queued := vr.Concretize(vr.NondetInt(0, 2))
	for i := 0; i < queued; i++ {
		_, err := p.Write(&rtp.Header{Version: 2, SSRC: 7, SequenceNumber: uint16(i)}, make([]byte, 100), nil)
		vr.Assert(err == nil, "write accepted")
	}
	if vr.Concretize(vr.NondetInt(0, 1)) == 1 {
		vr.FireTickers(time.Unix(1800000000, 0)) // a tick is pending when Close is called
		vr.Cover("tick pending at Close")
	}
	vr.Assert(p.Close() == nil, "close")
	atClose := nout
	vr.KnownFinding("C11-leakybucket-close-nowait", vr.LiveThreads() != before)
	vr.Assert(vr.LiveThreads() == before, "Close returns only after the pacing goroutine has finished")
	vr.Yield()
	vr.FireTickers(time.Unix(1800000001, 0))
	vr.Yield()
	vr.KnownFinding("C11-leakybucket-close-nowait", nout != atClose)
	vr.Assert(nout == atClose, "nothing is handed to the RTP writer after Close has returned")
	vr.Cover("closed")
}
