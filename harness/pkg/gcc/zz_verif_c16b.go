//go:build verif

package gcc

import (
	"github.com/pion/rtcp"

	vr "github.com/pion/interceptor/internal/verifrt"
)

// HC16Lifecycle: the real estimator with its goroutine pipeline (arrival groups, rate calculator,
// overuse detector, rate controller) and a NoOp or leaky bucket pacer: feedback that acknowledges
// nothing (an empty report, a TWCC feedback about packets never sent, a non-feedback packet) is
// accepted without blocking, the target stays within bounds, Close returns, and feedback after Close
// fails with ErrSendSideBWEClosed.
func HC16Lifecycle() {
	minB, maxB, initial := 50_000, 2_000_000, 300_000
	opts := []Option{SendSideBWEInitialBitrate(initial), SendSideBWEMinBitrate(minB), SendSideBWEMaxBitrate(maxB)}
	noop := vr.Concretize(vr.NondetInt(0, 1)) == 1
	if noop {
		opts = append(opts, SendSideBWEPacer(NewNoOpPacer()))
	}
	before := vr.LiveThreads()
	e, err := NewSendSideBWE(opts...)
	vr.Assert(err == nil && e != nil, "estimator constructed")
	vr.Yield()
	nfb := vr.Param("feedbacks", 2)
	for i := 0; i < nfb; i++ {
		var pkt rtcp.Packet
		switch vr.Concretize(vr.NondetInt(0, 2)) {
		case 0:
			pkt = &rtcp.CCFeedbackReport{SenderSSRC: 1, ReportTimestamp: vr.NondetU32()}
		case 1:
			pkt = &rtcp.TransportLayerCC{SenderSSRC: 1, MediaSSRC: 2, BaseSequenceNumber: vr.NondetU16(), PacketStatusCount: 0, ReferenceTime: uint32(vr.NondetInt(0, 1<<24-1))}
		default:
			pkt = &rtcp.PictureLossIndication{SenderSSRC: 1, MediaSSRC: 2}
		}
		werr := e.WriteRTCP([]rtcp.Packet{pkt}, nil)
		vr.Assert(werr == nil, "feedback that acknowledges nothing is accepted")
		vr.Yield()
		got := e.GetTargetBitrate()
		vr.Assert(got >= minB && got <= maxB, "target bitrate within the configured bounds")
	}
	vr.Cover("feedback fed")
	vr.Assert(e.Close() == nil, "close")
	_ = before // goroutine completion at Close is a C11 clause: see HC11PacerClose
	werr := e.WriteRTCP([]rtcp.Packet{&rtcp.CCFeedbackReport{SenderSSRC: 1}}, nil)
	vr.Assert(vr.ErrorsIs(werr, ErrSendSideBWEClosed), "feedback after Close fails with the documented closed error")
	vr.Cover("closed")
}
