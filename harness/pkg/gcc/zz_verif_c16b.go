//go:build verif

package gcc

import (
	"github.com/pion/interceptor"
	"github.com/pion/rtcp"
	"github.com/pion/rtp"

	vr "github.com/pion/interceptor/internal/verifrt"
)

// HC16Lifecycle: the real estimator with its goroutine pipeline (arrival groups, rate calculator,
// overuse detector, rate controller) and a NoOp or leaky bucket pacer: feedback that acknowledges
// nothing (an empty report, a TWCC feedback about packets never sent, a non-feedback packet) is
// accepted without blocking, the target stays within bounds, Close returns, and feedback after Close
// fails with ErrSendSideBWEClosed.
func HC16Lifecycle() {
	minB, maxB, initial := 50_000, 2_000_000, 300_000
	opts := []Option{SendSideBWEInitialBitrate(initial), SendSideBWEMinBitrate(minB), SendSideBWEMaxBitrate(maxB)}
	noop := vr.Concretize(vr.NondetInt(0, 1)) == 1
	if noop {
		opts = append(opts, SendSideBWEPacer(NewNoOpPacer()))
	}
	before := vr.LiveThreads()
	e, err := NewSendSideBWE(opts...)
	vr.Assert(err == nil && e != nil, "estimator constructed")
	vr.Yield()
	nfb := vr.Param("feedbacks", 2)
	for i := 0; i < nfb; i++ {
		var pkt rtcp.Packet
		switch vr.Concretize(vr.NondetInt(0, 2)) {
		case 0:
			pkt = &rtcp.CCFeedbackReport{SenderSSRC: 1, ReportTimestamp: vr.NondetU32()}
		case 1:
			pkt = &rtcp.TransportLayerCC{SenderSSRC: 1, MediaSSRC: 2, BaseSequenceNumber: vr.NondetU16(), PacketStatusCount: 0, ReferenceTime: uint32(vr.NondetInt(0, 1<<24-1))}
		default:
			pkt = &rtcp.PictureLossIndication{SenderSSRC: 1, MediaSSRC: 2}
		}
		werr := e.WriteRTCP([]rtcp.Packet{pkt}, nil)
		vr.Assert(werr == nil, "feedback that acknowledges nothing is accepted")
		vr.Yield()
		got := e.GetTargetBitrate()
		vr.Assert(got >= minB && got <= maxB, "target bitrate within the configured bounds")
	}
	vr.Cover("feedback fed")
	vr.Assert(e.Close() == nil, "close")
	_ = before // goroutine completion at Close is a C11 clause: see HC11PacerClose
	werr := e.WriteRTCP([]rtcp.Packet{&rtcp.CCFeedbackReport{SenderSSRC: 1}}, nil)
	vr.Assert(vr.ErrorsIs(werr, ErrSendSideBWEClosed), "feedback after Close fails with the documented closed error")
	vr.Cover("closed")
}

// HC16Feedback: the real estimator end to end with a NoOp pacer: packets carrying the
// transport-wide-CC extension are written through AddStream, then a TWCC feedback acknowledging
// them (arrival spacing chosen from a table: equal to the send spacing, bunched, or spread out) is
// fed through WriteRTCP. The call returns, the whole goroutine pipeline settles, the target stays a
// positive number within the configured bounds and the callback value equals the getter.
func HC16Feedback() {
	minB, maxB, initial := 50_000, 2_000_000, 300_000
	e, err := NewSendSideBWE(SendSideBWEInitialBitrate(initial), SendSideBWEMinBitrate(minB), SendSideBWEMaxBitrate(maxB), SendSideBWEPacer(NewNoOpPacer()))
	vr.Assert(err == nil && e != nil, "estimator constructed")
	cbVal, cbCalls := 0, 0
	e.OnTargetBitrateChange(func(b int) { cbVal = b; cbCalls++ })
	info := &interceptor.StreamInfo{SSRC: 7, RTPHeaderExtensions: []interceptor.RTPHeaderExtension{{URI: transportCCURI, ID: 3}}}
	w := e.AddStream(info, interceptor.RTPWriterFunc(func(h *rtp.Header, p []byte, _ interceptor.Attributes) (int, error) { return len(p), nil }))
	vr.Yield()
	n := vr.Param("packets", 3)
	for i := 0; i < n; i++ {
		h := &rtp.Header{Version: 2, SSRC: 7, SequenceNumber: uint16(i), Extension: true, ExtensionProfile: 0xBEDE}
		ext, _ := (&rtp.TransportCCExtension{TransportSequence: uint16(100 + i)}).Marshal()
		_ = h.SetExtension(3, ext)
		_, werr := w.Write(h, make([]byte, 1000), nil)
		vr.Assert(werr == nil, "write accepted")
	}
	deltas := [3]int64{250, 5000, 60000} // microseconds between arrivals
	d := deltas[vr.Concretize(vr.NondetInt(0, 2))]
	fb := &rtcp.TransportLayerCC{SenderSSRC: 1, MediaSSRC: 7, BaseSequenceNumber: 100, PacketStatusCount: uint16(n), ReferenceTime: 1000,
		PacketChunks: []rtcp.PacketStatusChunk{&rtcp.RunLengthChunk{Type: rtcp.TypeTCCRunLengthChunk, PacketStatusSymbol: rtcp.TypeTCCPacketReceivedLargeDelta, RunLength: uint16(n)}}}
	for i := 0; i < n; i++ {
		fb.RecvDeltas = append(fb.RecvDeltas, &rtcp.RecvDelta{Type: rtcp.TypeTCCPacketReceivedLargeDelta, Delta: d})
	}
	werr := e.WriteRTCP([]rtcp.Packet{fb}, nil)
	vr.Assert(werr == nil, "well-formed feedback about sent packets is accepted")
	vr.Yield()
	vr.Cover("feedback processed")
	got := e.GetTargetBitrate()
	vr.Assert(got > 0 && got >= minB && got <= maxB, "target bitrate positive and within the configured bounds")
	if cbCalls > 0 {
		vr.Cover("callback fired")
		vr.Assert(cbVal == got, "the last callback value is the value the getter returns")
	}
	vr.Assert(e.Close() == nil, "close")
}
