//go:build verif

package gcc

import (
	"time"

	"github.com/pion/logging"

	vr "github.com/pion/interceptor/internal/verifrt"
)

type c16pacer struct {
	NoOpPacer
	rate  int
	calls int
}

func (p *c16pacer) SetTargetBitrate(r int) { p.rate = r; p.calls++ }

// HC16Publish: one onDelayUpdate from an arbitrary valid state: the published target is within the
// configured bounds, and getter == pacer == callback value.
func HC16Publish() {
	minB := vr.NondetInt(1, 1<<30)
	maxB := vr.NondetInt(1, 1<<30)
	initial := vr.NondetInt(1, 1<<30)
	vr.Assume(minB <= initial && initial <= maxB)
	loss := newLossBasedBWE(initial, logging.NewDefaultLoggerFactory())
	// the loss controller's own invariant: its bitrate stays within its private clamp once updated
	if vr.NondetBool() {
		loss.bitrate = vr.NondetInt(100_000, 100_000_000)
		vr.Cover("loss controller has adapted")
	}
	p := &c16pacer{}
	var cbVal, cbCalls int
	e := &SendSideBWE{pacer: p, lossController: loss, latestBitrate: initial, minBitrate: minB, maxBitrate: maxB,
		onTargetBitrateChange: func(b int) { cbVal = b; cbCalls++ }}
	withCallback := vr.NondetBool()
	if !withCallback {
		e.onTargetBitrateChange = nil // the application polls GetTargetBitrate instead
	}
	// the delay controller clamps its target into the configured bounds (HC16RateStep)
	target := vr.NondetInt(1, 1<<30)
	vr.Assume(minB <= target && target <= maxB)
	e.onDelayUpdate(DelayStats{TargetBitrate: target})
	vr.Yield() // the callback runs on its own goroutine
	got := e.GetTargetBitrate()
	vr.KnownFinding("C16-loss-private-bounds", loss.bitrate < minB)
	vr.Assert(got >= minB && got <= maxB && got > 0, "target bitrate within the configured minimum and maximum")
	if cbCalls > 0 {
		vr.Cover("callback fired")
		vr.Assert(cbCalls == 1 && cbVal == got, "callback value is the value the getter returns")
		vr.Assert(p.calls == 1 && p.rate == got, "pacer is told the same rate")
	} else if got != initial {
		vr.Cover("changed without callback")
		vr.Assert(!withCallback, "a registered callback is told about every change")
		vr.Assert(p.calls == 1 && p.rate == got, "pacer is told the same rate (no callback registered)")
	} else {
		vr.Assert(p.calls == 0 && got == initial, "unchanged bitrate: nothing published")
	}
}

// HC16RateStep: one onDelayStats step of the delay-based rate controller from an arbitrary state with
// every float-valued intermediate arbitrary: the new target is within [min,max] and is what is passed on.
func HC16RateStep() {
	minB := vr.NondetInt(1, 1<<30)
	maxB := vr.NondetInt(1, 1<<30)
	vr.Assume(minB <= maxB)
	var outTarget, outCalls int
	t0 := time.Unix(1700000000, 0)
	c := newRateController(func() time.Time { return t0 }, minB, minB, maxB, func(ds DelayStats) { outTarget = ds.TargetBitrate; outCalls++ })
	c.init = true
	c.target = vr.NondetInt(1, 1<<30)
	vr.Assume(minB <= c.target && c.target <= maxB)
	c.latestReceivedRate = vr.NondetInt(0, 1<<40)
	c.latestRTT = time.Duration(vr.NondetInt(0, 1<<35))
	c.lastUpdate = t0.Add(-time.Duration(vr.NondetInt(0, 1<<40)))
	c.latestDecreaseRate.average = vr.NondetF64()
	c.latestDecreaseRate.stdDeviation = vr.NondetF64()
	c.latestDecreaseRate.variance = vr.NondetF64()
	c.delayStats.State = state(vr.NondetInt(0, 2))
	usage := usage(vr.NondetInt(0, 2))
	c.onDelayStats(DelayStats{Usage: usage, State: c.delayStats.State})
	vr.Cover("step")
	vr.Assert(c.target >= minB && c.target <= maxB, "delay target clamped into the configured bounds")
	if outCalls > 0 {
		vr.Cover("stats written")
		vr.Assert(outCalls == 1 && outTarget == c.target, "the clamped target is what is passed on")
	}
}
