//go:build verif

package flexfec

import (
	"github.com/pion/rtp"

	vr "github.com/pion/interceptor/internal/verifrt"
)

// c14named reads the FlexFEC-03 wire masks independently: is media index m named?
func c14named(mask1 uint16, mask2 uint32, mask3 uint64, m int) bool {
	switch {
	case m < 15:
		return mask1&(1<<uint(14-m)) != 0
	case m < 46:
		return mask2&(1<<uint(30-(m-15))) != 0
	case m < 109:
		return mask3&(1<<uint(62-(m-46))) != 0
	}
	return false // the -03 mask has 109 bits
}

// HC14Masks: for (media count, FEC count) configurations the masks of repair packet f name exactly
// the media indices m with m mod k == f, and GetCoveredBy yields the same set.
func HC14Masks() {
	ns := [8]int{1, 2, 15, 16, 46, 47, 109, 110}
	ks := [4]int{1, 2, 3, 7}
	n := ns[vr.Concretize(vr.NondetInt(0, 7))]
	k := ks[vr.Concretize(vr.NondetInt(0, 3))]
	media := make([]rtp.Packet, n)
	var cov *ProtectionCoverage
	if vr.NondetBool() {
		// the same coverage object served a different, larger configuration before: no stale bits may remain
		cov = NewCoverage(make([]rtp.Packet, 110), 2)
		cov.UpdateCoverage(media, uint32(k))
		vr.Cover("coverage reused")
	} else {
		cov = NewCoverage(media, uint32(k))
	}
	vr.Assert(cov != nil, "configuration accepted")
	f := vr.NondetInt(0, k-1)
	m := vr.NondetInt(0, 109) // also indices beyond the media count: they must not be named
	named := c14named(cov.ExtractMask1(uint32(f)), cov.ExtractMask2(uint32(f)), cov.ExtractMask3_03(uint32(f)), m)
	combined := cov.packetMasks[f].GetBit(uint32(m)) == 1
	vr.Cover("configured")
	vr.Assert(combined == (m < n && m%k == f), "media m is combined into repair packet m mod k (and nothing beyond the media count)")
	vr.KnownFinding("C14-index-109", m == 109)
	vr.Assert(named == combined, "the mask names exactly the packets that were combined")
	// stale bits beyond the media count would name packets that do not exist
	vr.Assert(cov.ExtractMask3_03(uint32(f))>>63 == 0 && cov.ExtractMask2(uint32(f))>>31 == 0 && cov.ExtractMask1(uint32(f))>>15 == 0, "k-bit positions are clear in the extracted masks")
}

func c14marshal(p *rtp.Packet) []byte {
	b := make([]byte, p.MarshalSize())
	n, err := p.MarshalTo(b)
	vr.Assert(err == nil && n == len(b), "media packet marshals")
	return b
}

// HC14Bytes: byte-level XOR recovery for small batches through the real encoder, two successive batches.
func HC14Bytes() {
	n := vr.Param("media", 3)
	k := vr.Param("fec", 2)
	enc := NewFlexEncoder03(115, 0xFEC0FEC0)
	firstFecSeq := uint16(1000)
	for batch := 0; batch < 2; batch++ {
		base := vr.NondetU16()
		media := make([]rtp.Packet, n)
		var wire [4][]byte
		for i := 0; i < n; i++ {
			pl := vr.NondetBytes(2)
			ln := vr.NondetInt(0, 2)
			media[i] = rtp.Packet{Header: rtp.Header{Version: 2, Marker: vr.NondetBool(), PayloadType: uint8(vr.NondetInt(0, 127)),
				SequenceNumber: base + uint16(i), Timestamp: vr.NondetU32(), SSRC: 0x11223344}, Payload: pl[:ln]}
			if vr.Param("csrc", 0) != 0 && i == 1 {
				media[i].Header.CSRC = []uint32{vr.NondetU32()}
			}
			wire[i] = c14marshal(&media[i])
		}
		fec := enc.EncodeFec(media, uint32(k))
		vr.Assert(len(fec) == k, "one repair packet per requested FEC packet")
		for f := 0; f < k; f++ {
			fp := fec[f]
			vr.Assert(fp.SSRC == 0xFEC0FEC0 && fp.PayloadType == 115, "repair packets carry the FEC SSRC and payload type")
			vr.Assert(fp.SequenceNumber == firstFecSeq, "repair sequence numbers increase by one")
			firstFecSeq++
			p := fp.Payload
			vr.Assert(len(p) >= 20, "FlexFEC header present")
			vr.Assert(p[8] == 1 && p[12] == 0x11 && p[13] == 0x22 && p[14] == 0x33 && p[15] == 0x44, "one protected SSRC: the media SSRC")
			vr.Assert(p[16] == uint8(base>>8) && p[17] == uint8(base), "SN base is the first media sequence number")
			vr.Assert(p[18]&0x80 != 0, "k-bit set: single 15-bit mask for batches of up to 15 packets")
			mask1 := (uint16(p[18])<<8 | uint16(p[19])) & 0x7FFF
			for j := 0; j < n; j++ {
				vr.Assert((mask1&(1<<uint(14-j)) != 0) == (j%k == f), "mask names exactly the combined packets")
			}
			// recover packet j from the repair packet and the other named packets
			j := vr.NondetInt(0, n-1)
			if j%k != f {
				continue
			}
			vr.Cover("recovery")
			var r0, r1, l0, l1, t0, t1, t2, t3 byte
			r0, r1, l0, l1, t0, t1, t2, t3 = p[0], p[1], p[2], p[3], p[4], p[5], p[6], p[7]
			var body [8]byte
			for b := 0; b < len(body); b++ {
				if 20+b < len(p) {
					body[b] = p[20+b]
				}
			}
			for o := 0; o < n; o++ {
				if o == j || o%k != f {
					continue
				}
				w := wire[o]
				r0 ^= w[0] & 0x3F
				r1 ^= w[1]
				lo := uint16(len(w) - 12)
				l0 ^= uint8(lo >> 8)
				l1 ^= uint8(lo)
				t0, t1, t2, t3 = t0^w[4], t1^w[5], t2^w[6], t3^w[7]
				for b := 0; b < len(body); b++ {
					if 12+b < len(w) {
						body[b] ^= w[12+b]
					}
				}
			}
			w := wire[j]
			vr.Assert(r0 == w[0]&0x3F && r1 == w[1], "P, X, CC, M, PT recovered")
			vr.Assert(uint16(l0)<<8|uint16(l1) == uint16(len(w)-12), "length recovered")
			vr.Assert(t0 == w[4] && t1 == w[5] && t2 == w[6] && t3 == w[7], "timestamp recovered")
			for b := 0; b < len(body); b++ {
				if 12+b < len(w) {
					vr.Assert(body[b] == w[12+b], "bytes after the fixed header recovered")
				} else {
					vr.Assert(body[b] == 0, "recovered bytes beyond the packet length are zero padding")
				}
			}
		}
	}
}

// HC14Header: the FlexFEC-03 header as written on the wire for larger batches: header length
// (20/24/32 bytes by which mask words are present), k-bits, and the masks read back from the
// repair packet's own bytes name exactly the media indices m with m mod k == f.
func HC14Header() {
	grid := [8][2]int{{15, 1}, {16, 1}, {46, 2}, {47, 1}, {60, 46}, {60, 20}, {109, 108}, {109, 3}}
	g := grid[vr.Concretize(vr.NondetInt(0, 7))]
	n, k := g[0], g[1]
	base := vr.NondetU16()
	media := make([]rtp.Packet, n)
	for i := 0; i < n; i++ {
		media[i] = rtp.Packet{Header: rtp.Header{Version: 2, SequenceNumber: base + uint16(i), SSRC: 7}, Payload: []byte{byte(i)}}
	}
	enc := NewFlexEncoder03(115, 0xFEC)
	fec := enc.EncodeFec(media, uint32(k))
	vr.Assert(len(fec) == k, "one repair packet per FEC packet with coverage")
	fs := [3]int{0, min(1, k-1), k - 1}
	f := fs[vr.Concretize(vr.NondetInt(0, 2))]
	p := fec[f].Payload
	vr.Assert(len(p) >= 20, "base header present")
	k1 := p[18]&0x80 != 0
	mask1 := (uint16(p[18])<<8 | uint16(p[19])) & 0x7FFF
	var mask2 uint32
	var mask3 uint64
	hs := 20
	if !k1 {
		vr.Assert(len(p) >= 24, "second mask word present when the first k-bit is clear")
		k2 := p[20]&0x80 != 0
		mask2 = (uint32(p[20])<<24 | uint32(p[21])<<16 | uint32(p[22])<<8 | uint32(p[23])) & 0x7FFFFFFF
		hs = 24
		if !k2 {
			vr.Assert(len(p) >= 32, "third mask word present when the second k-bit is clear")
			vr.Assert(p[24]&0x80 != 0, "last k-bit set")
			for b := 0; b < 8; b++ {
				mask3 = mask3<<8 | uint64(p[24+b])
			}
			mask3 &= 0x7FFFFFFFFFFFFFFF
			hs = 32
			vr.Cover("three mask words")
		}
	}
	vr.Assert(len(p) == hs+1, "repair payload = header of the announced size + the longest protected payload")
	for m := 0; m < 109; m++ {
		vr.Assert(c14named(mask1, mask2, mask3, m) == (m < n && m%k == f), "wire masks name exactly the combined packets")
	}
	// the single protected payload byte of each named packet is XORed into the repair byte
	var x byte
	for m := f; m < n; m += k {
		x ^= byte(m)
	}
	vr.Assert(p[hs] == x, "repair byte is the XOR of the protected payload bytes (not overwritten by the masks)")
}
