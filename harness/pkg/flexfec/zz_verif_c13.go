//go:build verif

package flexfec

import (
	"github.com/pion/interceptor"
	"github.com/pion/rtp"

	vr "github.com/pion/interceptor/internal/verifrt"
)

type c13log struct {
	n   int
	ssrc [8]uint32
	pay [8][24]byte
	ln  [8]int
}

func c13fec(log *c13log) interceptor.RTPWriter {
	f, err := NewFecInterceptor(NumMediaPackets(2), NumFECPackets(1))
	vr.Assert(err == nil, "factory")
	i, err := f.NewInterceptor("")
	vr.Assert(err == nil, "interceptor")
	down := interceptor.RTPWriterFunc(func(h *rtp.Header, p []byte, _ interceptor.Attributes) (int, error) {
		if log.n < 8 {
			log.ssrc[log.n] = h.SSRC
			log.ln[log.n] = len(p)
			for j := 0; j < len(p) && j < 24; j++ {
				log.pay[log.n][j] = p[j]
			}
		}
		log.n++
		return len(p), nil
	})
	info := &interceptor.StreamInfo{SSRC: 0x1111, PayloadTypeForwardErrorCorrection: 115, SSRCForwardErrorCorrection: 0xFEC}
	return i.BindLocalStream(info, down)
}

// HC13FlexFEC: the same two-packet history through two encoder interceptors: once with a fresh
// payload/header per packet, once with ONE payload array and header object that the caller
// overwrites immediately after each Write returns. Everything emitted must be identical.
func HC13FlexFEC() {
	var lf, lr c13log
	wf, wr := c13fec(&lf), c13fec(&lr)
	base := vr.NondetU16()
	shared := make([]byte, 2)
	hshared := &rtp.Header{}
	for i := 0; i < 2; i++ {
		b := vr.NondetBytes(2)
		ts := vr.NondetU32()
		// fresh instance
		fresh := []byte{b[0], b[1]}
		_, err := wf.Write(&rtp.Header{Version: 2, SSRC: 0x1111, PayloadType: 96, SequenceNumber: base + uint16(i), Timestamp: ts}, fresh, nil)
		vr.Assert(err == nil, "write ok")
		// reusing caller
		shared[0], shared[1] = b[0], b[1]
		*hshared = rtp.Header{Version: 2, SSRC: 0x1111, PayloadType: 96, SequenceNumber: base + uint16(i), Timestamp: ts}
		_, err = wr.Write(hshared, shared, nil)
		vr.Assert(err == nil, "write ok")
		vr.Assert(shared[0] == b[0] && shared[1] == b[1], "the interceptor never writes into the caller's payload")
		scr := vr.NondetBytes(2)
		shared[0], shared[1] = scr[0], scr[1] // caller reuses its buffer at once
		hshared.Timestamp = vr.NondetU32()
		hshared.SequenceNumber = vr.NondetU16()
	}
	vr.Assert(lf.n == 3 && lr.n == 3, "two media packets and one repair packet each")
	vr.Cover("repair emitted")
	vr.Assert(lf.ssrc[0] == 0x1111 && lf.ssrc[1] == 0x1111 && lf.ssrc[2] == 0xFEC, "media packets pass through first, the repair packet follows with the FEC SSRC")
	vr.Assert(lf.ln[0] <= 2 && lf.ln[1] <= 2, "media payloads pass through with their own length")
	for k := 0; k < 3; k++ {
		vr.Assert(lf.ssrc[k] == lr.ssrc[k] && lf.ln[k] == lr.ln[k], "same packets emitted")
		for j := 0; j < 24; j++ {
			vr.Assert(lf.pay[k][j] == lr.pay[k][j], "emitted bytes do not depend on what the caller did with its buffers after Write returned")
		}
	}
}
