//go:build verif

package sequencenumber

import vr "github.com/pion/interceptor/internal/verifrt"

// HC20UnwrapStep: one Unwrap step from an arbitrary initialised state.
// Complete for the step: every lastUnwrapped >= 0 (2^63 values) and every input (2^16).
func HC20UnwrapStep() {
	last := vr.NondetI64()
	vr.Assume(last >= 0 && last < (1<<62))
	i := vr.NondetU16()
	u := &Unwrapper{init: true, lastUnwrapped: last}
	r := u.Unwrap(i)
	vr.Cover("step")
	vr.Assert(r >= 0, "non-negative")
	vr.Assert(uint16(r) == i, "congruent mod 2^16")
	vr.Assert(u.lastUnwrapped == r, "state is last result")
	d := r - last
	// the floor-at-zero corner: no non-negative congruent value within 2^15 of last exists
	back := int64(uint16(uint16(last) - i)) // how far i is behind last (mod 2^16)
	corner := back > 0 && back <= 32768 && last-back < 0
	if corner {
		vr.Cover("floor-at-zero corner")
		vr.Assert(r == last+int64(uint16(i-uint16(last))), "corner: forward value chosen")
	} else {
		vr.Assert(d >= -32768 && d <= 32768, "within 2^15 of previous")
	}
	// reconstruction lemma
	tn := vr.NondetI64()
	vr.Assume(tn >= 0 && tn < (1<<62))
	if tn-last < 32768 && last-tn < 32768 && uint16(tn) == i {
		vr.Cover("reconstruction premise")
		vr.Assert(r == tn, "reconstructs true value")
	}
}

// HC20UnwrapFirst: the first call returns the input itself.
func HC20UnwrapFirst() {
	i := vr.NondetU16()
	u := &Unwrapper{}
	r := u.Unwrap(i)
	vr.Assert(r == int64(i), "first value")
	vr.Assert(u.init, "initialised")
	j := vr.NondetU16()
	r2 := u.Unwrap(j)
	vr.Cover("second")
	vr.Assert(r2 >= 0 && uint16(r2) == j, "second congruent, non-negative")
}
