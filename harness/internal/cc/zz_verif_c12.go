//go:build verif

package cc

import vr "github.com/pion/interceptor/internal/verifrt"

// HC12LRU: the send history is an LRU of fixed size: after any sequence of adds (arbitrary keys,
// repeats included) it never holds more than `size` entries and list and map agree.
func HC12LRU() {
	size := vr.Param("size", 3)
	adds := vr.Param("adds", 5)
	h := newFeedbackHistory(size)
	for i := 0; i < adds; i++ {
		seq := uint16(vr.Concretize(vr.NondetInt(0, 4)))
		ssrc := uint32(vr.Concretize(vr.NondetInt(0, 1)))
		h.add(Acknowledgment{SequenceNumber: seq, SSRC: ssrc, Size: i})
		vr.Assert(h.evictList.Len() <= size, "history never exceeds its configured size")
		vr.Assert(h.evictList.Len() == len(h.items), "list and index agree")
		got, ok := h.get(feedbackHistoryKey{ssrc: ssrc, sequenceNumber: seq})
		vr.Assert(ok && got.Size == i, "the newest entry is retrievable with its latest value")
	}
	if h.evictList.Len() == size {
		vr.Cover("full")
	}
}
