//go:build verif

package cc

import (
	"github.com/pion/interceptor"
	"github.com/pion/rtcp"
	"github.com/pion/rtp"

	vr "github.com/pion/interceptor/internal/verifrt"
)

// HC02AdapterTWCC: parseable-but-inconsistent TWCC feedback (run length beyond the status count,
// received padding symbols, fewer deltas than symbols) never panics the gcc feedback adapter; it
// is rejected with an error or decoded, and the adapter keeps working afterwards.
func HC02AdapterTWCC() {
	kind := vr.Param("kind", 0)
	a := NewFeedbackAdapter()
	attrs := interceptor.Attributes{TwccExtensionAttributesKey: uint8(5)}
	base := vr.NondetU16()
	for i := 0; i < 3; i++ {
		hdr := rtp.Header{Version: 2}
		ext, _ := (&rtp.TransportCCExtension{TransportSequence: base + uint16(i)}).Marshal()
		_ = hdr.SetExtension(5, ext)
		_ = a.OnSent(c09epoch, &hdr, 100, attrs)
	}
	count := vr.NondetInt(0, 4)
	fb := &rtcp.TransportLayerCC{BaseSequenceNumber: base, PacketStatusCount: uint16(count), ReferenceTime: uint32(vr.NondetInt(0, 1<<24-1))}
	nrecv := 0
	if kind == 0 {
		sym := uint16(vr.Concretize(vr.NondetInt(0, 3)))
		run := vr.Concretize(vr.NondetInt(0, 9))
		fb.PacketChunks = []rtcp.PacketStatusChunk{&rtcp.RunLengthChunk{Type: rtcp.TypeTCCRunLengthChunk, PacketStatusSymbol: sym, RunLength: uint16(run)}}
		if sym == rtcp.TypeTCCPacketReceivedSmallDelta || sym == rtcp.TypeTCCPacketReceivedLargeDelta {
			nrecv = count
			if run < count {
				nrecv = run
			}
		}
	} else {
		list := make([]uint16, 7)
		for i := 0; i < 7; i++ {
			if i < 4 {
				list[i] = uint16(vr.Concretize(vr.NondetInt(0, 2)))
			} else {
				list[i] = uint16(vr.Param("pad", 0))
			}
			if list[i] != rtcp.TypeTCCPacketNotReceived {
				nrecv++ // the parser yields deltas for received padding symbols too
			}
		}
		fb.PacketChunks = []rtcp.PacketStatusChunk{&rtcp.StatusVectorChunk{Type: rtcp.TypeTCCStatusVectorChunk, SymbolSize: rtcp.TypeTCCSymbolSizeTwoBit, SymbolList: list}}
	}
	// as many deltas as received symbols inside the status count (what rtcp.Unmarshal yields), or fewer
	n := vr.Concretize(vr.NondetInt(0, vr.Concretize(nrecv)))
	for i := 0; i < n; i++ {
		fb.RecvDeltas = append(fb.RecvDeltas, &rtcp.RecvDelta{Type: rtcp.TypeTCCPacketReceivedSmallDelta, Delta: int64(vr.NondetInt(0, 255)) * 250})
	}
	acks, err := a.OnTransportCCFeedback(c09epoch, fb)
	vr.Cover("handled")
	vr.Assert(err != nil || len(acks) <= 16, "rejected or decoded")
	// keeps working for a well-formed feedback afterwards
	ok := &rtcp.TransportLayerCC{BaseSequenceNumber: base, PacketStatusCount: 1,
		PacketChunks: []rtcp.PacketStatusChunk{&rtcp.RunLengthChunk{Type: rtcp.TypeTCCRunLengthChunk, PacketStatusSymbol: rtcp.TypeTCCPacketReceivedSmallDelta, RunLength: 1}},
		RecvDeltas:   []*rtcp.RecvDelta{{Type: rtcp.TypeTCCPacketReceivedSmallDelta, Delta: 250}}}
	acks2, err2 := a.OnTransportCCFeedback(c09epoch, ok)
	vr.Assert(err2 == nil && len(acks2) == 1 && acks2[0].SequenceNumber == base, "adapter keeps working")
}
