//go:build verif

package cc

import (
	"github.com/pion/rtcp"

	vr "github.com/pion/interceptor/internal/verifrt"
)

// HC02RawTWCCAdapter: raw bytes of a 24-byte transport-wide-CC feedback packet (one arbitrary status
// chunk, two arbitrary trailing bytes, status count 0..8) through the real rtcp.Unmarshal and, if it
// parses, through the gcc feedback adapter: rejected or decoded, never a panic.
func HC02RawTWCCAdapter() {
	body := vr.NondetBytes(8)
	chunk := vr.NondetBytes(2)
	tail := vr.NondetBytes(2)
	vr.Assume(body[2] == 0 && body[3] <= 8)
	// run-length chunks: run length <= 16 (a long run is legitimate and only makes the decoder loop long)
	vr.Assume(chunk[0]&0x80 != 0 || (chunk[0]&0x1F == 0 && chunk[1] <= 16))
	raw := []byte{0x8F, 205, 0, 5, 0, 0, 0, 1, 0, 0, 0, 2,
		body[0], body[1], body[2], body[3], body[4], body[5], body[6], body[7],
		chunk[0], chunk[1], tail[0], tail[1]}
	pkts, err := rtcp.Unmarshal(raw)
	if err != nil {
		vr.Cover("rejected by the parser")
		return
	}
	vr.Cover("parsed")
	fb, ok := pkts[0].(*rtcp.TransportLayerCC)
	vr.Assert(ok, "parsed as transport-wide-CC feedback")
	a := NewFeedbackAdapter()
	acks, aerr := a.OnTransportCCFeedback(c09epoch, fb)
	vr.Assert(aerr != nil || len(acks) <= 8191, "rejected or decoded")
}
