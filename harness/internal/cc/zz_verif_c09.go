//go:build verif

package cc

import (
	"time"

	"github.com/pion/interceptor"
	"github.com/pion/rtcp"
	"github.com/pion/rtp"

	vr "github.com/pion/interceptor/internal/verifrt"
)

var c09epoch = time.Unix(1700000000, 0)

// HC09Adapter: TWCC feedback (status vector chunk, 2-bit symbols, padded to 7 / run-length chunk)
// over a history in which any subset of the covered packets is (still) known.
func HC09Adapter() {
	n := vr.Param("n", 3)
	kind := vr.Param("kind", 0)
	bases := [2]uint16{10, 65534}
	base := bases[vr.Concretize(vr.NondetInt(0, 1))]
	a := NewFeedbackAdapter()
	attrs := interceptor.Attributes{TwccExtensionAttributesKey: uint8(5)}
	var inHist [8]bool
	var dep [8]time.Time
	var size [8]int
	for i := 0; i <= n; i++ { // one more packet than the feedback declares
		inHist[i] = vr.Concretize(vr.NondetInt(0, 1)) == 1
		if !inHist[i] {
			continue
		}
		hdr := rtp.Header{Version: 2, SSRC: 1234}
		ext, _ := (&rtp.TransportCCExtension{TransportSequence: base + uint16(i)}).Marshal()
		vr.Assert(hdr.SetExtension(5, ext) == nil, "setup")
		dep[i] = c09epoch.Add(time.Duration(vr.NondetInt(0, 1<<30)))
		pl := vr.NondetInt(0, 1460)
		size[i] = hdr.MarshalSize() + pl
		vr.Assert(a.OnSent(dep[i], &hdr, pl, attrs) == nil, "sent recorded")
	}
	refTime := uint32(vr.NondetInt(0, 1<<24-1))
	fb := &rtcp.TransportLayerCC{BaseSequenceNumber: base, PacketStatusCount: uint16(n), ReferenceTime: refTime}
	var sym [8]uint16
	var delta [8]int64
	if kind == 0 {
		list := make([]uint16, 7)
		for i := 0; i < n; i++ {
			sym[i] = uint16(vr.Concretize(vr.NondetInt(0, 2)))
			list[i] = sym[i]
		}
		fb.PacketChunks = []rtcp.PacketStatusChunk{&rtcp.StatusVectorChunk{Type: rtcp.TypeTCCStatusVectorChunk, SymbolSize: rtcp.TypeTCCSymbolSizeTwoBit, SymbolList: list}}
	} else {
		s := uint16(vr.Concretize(vr.NondetInt(0, 2)))
		for i := 0; i < n; i++ {
			sym[i] = s
		}
		fb.PacketChunks = []rtcp.PacketStatusChunk{&rtcp.RunLengthChunk{Type: rtcp.TypeTCCRunLengthChunk, PacketStatusSymbol: s, RunLength: uint16(n)}}
	}
	for i := 0; i < n; i++ {
		switch sym[i] {
		case rtcp.TypeTCCPacketReceivedSmallDelta:
			delta[i] = int64(vr.NondetInt(0, 255)) * 250
		case rtcp.TypeTCCPacketReceivedLargeDelta:
			delta[i] = int64(vr.NondetInt(-32768, 32767)) * 250
		default:
			continue
		}
		fb.RecvDeltas = append(fb.RecvDeltas, &rtcp.RecvDelta{Type: sym[i], Delta: delta[i]})
	}
	acks, err := a.OnTransportCCFeedback(c09epoch, fb)
	vr.Assert(err == nil, "well-formed feedback accepted")
	vr.Cover("decoded")
	// reference decode
	ref := time.Time{}.Add(time.Duration(refTime) * 64 * time.Millisecond)
	var arrival [8]time.Time
	for i := 0; i < n; i++ {
		if sym[i] != rtcp.TypeTCCPacketNotReceived {
			ref = ref.Add(time.Duration(delta[i]) * time.Microsecond)
			arrival[i] = ref
		}
	}
	someUnknown := false
	for i := 0; i < n; i++ {
		if !inHist[i] {
			someUnknown = true
		}
	}
	_ = someUnknown
	// clause A: every sent packet in the declared range is acknowledged once with the right contents
	for i := 0; i < n; i++ {
		if !inHist[i] {
			continue
		}
		cnt := 0
		for _, ack := range acks {
			if ack.SequenceNumber == base+uint16(i) && !ack.Departure.IsZero() {
				cnt++
				vr.Assert(ack.Size == size[i] && ack.Departure.Equal(dep[i]) && ack.SSRC == 0, "ack carries the recorded size and departure")
				vr.Assert(ack.Arrival.Equal(arrival[i]), "ack carries the arrival the feedback encodes for this number")
			}
		}
		vr.Assert(cnt == 1, "each covered sent packet acknowledged exactly once")
	}
	// clause B: nothing else is reported
	for _, ack := range acks {
		ok := false
		for i := 0; i < n; i++ {
			if inHist[i] && ack.SequenceNumber == base+uint16(i) && !ack.Departure.IsZero() {
				ok = true
			}
		}
		// known: zero-valued entries for unknown packets / padding symbols beyond the status count,
		// and packets past the declared range reported as lost (pinned by the repo's own tests)
		inRange := ack.SequenceNumber-base < uint16(n)
		vr.KnownFinding("C09-extra-acks", ack.Departure.IsZero() || !inRange)
		vr.Assert(ok, "only sent packets inside the declared range are reported")
	}
}
