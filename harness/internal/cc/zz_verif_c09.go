//go:build verif

package cc

import (
	"time"

	"github.com/pion/interceptor"
	"github.com/pion/interceptor/internal/ntp"
	"github.com/pion/rtcp"
	"github.com/pion/rtp"

	vr "github.com/pion/interceptor/internal/verifrt"
)

var c09epoch = time.Unix(1700000000, 0)

// HC09Adapter: TWCC feedback (status vector chunk, 2-bit symbols, padded to 7 / run-length chunk)
// over a history in which any subset of the covered packets is (still) known.
func HC09Adapter() {
	n := vr.Param("n", 3)
	kind := vr.Param("kind", 0)
	bases := [2]uint16{10, 65534}
	base := bases[vr.Concretize(vr.NondetInt(0, 1))]
	a := NewFeedbackAdapter()
	attrs := interceptor.Attributes{TwccExtensionAttributesKey: uint8(5)}
	var inHist [8]bool
	var dep [8]time.Time
	var size [8]int
	for i := 0; i <= n; i++ { // one more packet than the feedback declares
		inHist[i] = vr.Concretize(vr.NondetInt(0, 1)) == 1
		if !inHist[i] {
			continue
		}
		hdr := rtp.Header{Version: 2, SSRC: 1234}
		ext, _ := (&rtp.TransportCCExtension{TransportSequence: base + uint16(i)}).Marshal()
		vr.Assert(hdr.SetExtension(5, ext) == nil, "setup")
		dep[i] = c09epoch.Add(time.Duration(vr.NondetInt(0, 1<<30)))
		pl := vr.NondetInt(0, 1460)
		size[i] = hdr.MarshalSize() + pl
		vr.Assert(a.OnSent(dep[i], &hdr, pl, attrs) == nil, "sent recorded")
	}
	refTime := uint32(vr.NondetInt(0, 1<<24-1))
	fb := &rtcp.TransportLayerCC{BaseSequenceNumber: base, PacketStatusCount: uint16(n), ReferenceTime: refTime}
	var sym [8]uint16
	var delta [8]int64
	if kind == 0 {
		list := make([]uint16, 7)
		for i := 0; i < n; i++ {
			sym[i] = uint16(vr.Concretize(vr.NondetInt(0, 2)))
			list[i] = sym[i]
		}
		fb.PacketChunks = []rtcp.PacketStatusChunk{&rtcp.StatusVectorChunk{Type: rtcp.TypeTCCStatusVectorChunk, SymbolSize: rtcp.TypeTCCSymbolSizeTwoBit, SymbolList: list}}
	} else {
		s := uint16(vr.Concretize(vr.NondetInt(0, 2)))
		for i := 0; i < n; i++ {
			sym[i] = s
		}
		fb.PacketChunks = []rtcp.PacketStatusChunk{&rtcp.RunLengthChunk{Type: rtcp.TypeTCCRunLengthChunk, PacketStatusSymbol: s, RunLength: uint16(n)}}
	}
	for i := 0; i < n; i++ {
		switch sym[i] {
		case rtcp.TypeTCCPacketReceivedSmallDelta:
			delta[i] = int64(vr.NondetInt(0, 255)) * 250
		case rtcp.TypeTCCPacketReceivedLargeDelta:
			delta[i] = int64(vr.NondetInt(-32768, 32767)) * 250
		default:
			continue
		}
		fb.RecvDeltas = append(fb.RecvDeltas, &rtcp.RecvDelta{Type: sym[i], Delta: delta[i]})
	}
	acks, err := a.OnTransportCCFeedback(c09epoch, fb)
	vr.Assert(err == nil, "well-formed feedback accepted")
	vr.Cover("decoded")
	// reference decode
	ref := time.Time{}.Add(time.Duration(refTime) * 64 * time.Millisecond)
	var arrival [8]time.Time
	for i := 0; i < n; i++ {
		if sym[i] != rtcp.TypeTCCPacketNotReceived {
			ref = ref.Add(time.Duration(delta[i]) * time.Microsecond)
			arrival[i] = ref
		}
	}
	someUnknown := false
	for i := 0; i < n; i++ {
		if !inHist[i] {
			someUnknown = true
		}
	}
	_ = someUnknown
	// clause A: every sent packet in the declared range is acknowledged once with the right contents
	for i := 0; i < n; i++ {
		if !inHist[i] {
			continue
		}
		cnt := 0
		for _, ack := range acks {
			if ack.SequenceNumber == base+uint16(i) && !ack.Departure.IsZero() {
				cnt++
				vr.Assert(ack.Size == size[i] && ack.Departure.Equal(dep[i]) && ack.SSRC == 0, "ack carries the recorded size and departure")
				vr.Assert(ack.Arrival.Equal(arrival[i]), "ack carries the arrival the feedback encodes for this number")
			}
		}
		vr.Assert(cnt == 1, "each covered sent packet acknowledged exactly once")
	}
	// clause B: nothing else is reported
	for _, ack := range acks {
		ok := false
		for i := 0; i < n; i++ {
			if inHist[i] && ack.SequenceNumber == base+uint16(i) && !ack.Departure.IsZero() {
				ok = true
			}
		}
		// known: zero-valued entries for unknown packets / padding symbols beyond the status count,
		// and packets past the declared range reported as lost (pinned by the repo's own tests)
		inRange := ack.SequenceNumber-base < uint16(n)
		vr.KnownFinding("C09-extra-acks", ack.Departure.IsZero() || !inRange)
		vr.Assert(ok, "only sent packets inside the declared range are reported")
	}
}

// HC09RFC8888: RFC 8888 feedback through the gcc adapter: two streams, 3 sent packets each (any
// subset still known), one report block per stream with a symbolic begin (wrap included), symbolic
// received flags, ECN marks and arrival-time offsets.
func HC09RFC8888() {
	a := NewFeedbackAdapter()
	bases := [2]uint16{65535, 20}
	base := bases[vr.Concretize(vr.NondetInt(0, vr.Param("nbases", 2)-1))]
	var inHist [2][3]bool
	var dep [2][3]time.Time
	var size [2][3]int
	ssrcs := [2]uint32{0xAAAA, 0xBBBB}
	for s := 0; s < 2; s++ {
		for i := 0; i < 3; i++ {
			inHist[s][i] = s == 1 || vr.Concretize(vr.NondetInt(0, 1)) == 1
			if !inHist[s][i] {
				continue
			}
			dep[s][i] = c09epoch.Add(time.Duration(vr.NondetInt(0, 1<<30)))
			size[s][i] = vr.NondetInt(0, 1500)
			hdr := rtp.Header{Version: 2, SSRC: ssrcs[s], SequenceNumber: base + uint16(i)}
			vr.Assert(a.OnSent(dep[s][i], &hdr, size[s][i], nil) == nil, "sent recorded")
		}
	}
	ts := vr.NondetU32()
	rep := &rtcp.CCFeedbackReport{ReportTimestamp: ts}
	var recv [2][3]bool
	var ecn [2][3]uint8
	var ato [2][3]uint16
	for s := 0; s < 2; s++ {
		blk := rtcp.CCFeedbackReportBlock{MediaSSRC: ssrcs[s], BeginSequence: base}
		for i := 0; i < 3; i++ {
			recv[s][i] = vr.NondetBool()
			ecn[s][i] = uint8(vr.NondetInt(0, 3))
			ato[s][i] = uint16(vr.NondetInt(0, 0x1FFD))
			blk.MetricBlocks = append(blk.MetricBlocks, rtcp.CCFeedbackMetricBlock{Received: recv[s][i], ECN: rtcp.ECN(ecn[s][i]), ArrivalTimeOffset: ato[s][i]})
		}
		rep.ReportBlocks = append(rep.ReportBlocks, blk)
	}
	acks := a.OnRFC8888Feedback(c09epoch, rep)
	vr.Cover("decoded")
	ref := ntp.ToTime(uint64(ts) << 16) // C20 covers the conversion itself
	want := 0
	for s := 0; s < 2; s++ {
		for i := 0; i < 3; i++ {
			if !inHist[s][i] {
				continue
			}
			want++
			cnt := 0
			for _, ack := range acks {
				if ack.SSRC == ssrcs[s] && ack.SequenceNumber == base+uint16(i) {
					cnt++
					vr.Assert(ack.Size == size[s][i] && ack.Departure.Equal(dep[s][i]), "ack carries the recorded size and departure")
					if recv[s][i] {
						d := time.Duration(uint64(ato[s][i]) * 1953125 / 2) // 1/1024 s units
						vr.Assert(ack.Arrival.Equal(ref.Add(-d)) && uint8(ack.ECN) == ecn[s][i], "arrival time and ECN as encoded for this sequence number")
					} else {
						vr.Assert(ack.Arrival.IsZero(), "not received: no arrival time")
					}
				}
			}
			vr.Assert(cnt == 1, "each covered sent packet acknowledged exactly once")
		}
	}
	vr.Assert(len(acks) == want, "only packets that were really sent are acknowledged")
}

