//go:build verif

package ntp

import (
	"time"

	vr "github.com/pion/interceptor/internal/verifrt"
)

// HC20NTP: for a window base N0 (unix ns, from the job) and ALL x1,x2 in [0,2^bits):
// monotonicity of ToNTP, round trip ToTime(ToNTP(t)) within 1 us.
func HC20NTP() {
	n0 := int64(vr.Param("base", 0))
	bits := uint(vr.Param("bits", 20))
	x1 := int64(vr.NondetInt(0, 1<<bits-1))
	x2 := int64(vr.NondetInt(0, 1<<bits-1))
	t1 := time.Unix(0, n0+x1)
	t2 := time.Unix(0, n0+x2)
	a, b := ToNTP(t1), ToNTP(t2)
	vr.Cover("converted")
	if x1 <= x2 {
		vr.Assert(a <= b, "ToNTP is monotone non-decreasing")
	}
	back := ToTime(a)
	d := back.Sub(t1)
	vr.Assert(d >= -time.Microsecond && d <= time.Microsecond, "ToTime(ToNTP(t)) within one microsecond")
}

// HC20NTP32: the 32-bit middle form round-trips within 1/65536 s given a reference in the same window.
func HC20NTP32() {
	n0 := int64(vr.Param("base", 0))
	bits := uint(vr.Param("bits", 20))
	x1 := int64(vr.NondetInt(0, 1<<bits-1))
	x3 := int64(vr.NondetInt(0, 1<<bits-1))
	t1 := time.Unix(0, n0+x1)
	ref := time.Unix(0, n0+x3+int64(vr.Param("refoff", 0)))
	m := ToNTP32(t1)
	back := ToTime32(m, ref)
	d := t1.Sub(back)
	vr.Cover("converted")
	vr.Assert(d >= -time.Microsecond && d <= time.Second/65536+time.Microsecond, "ToTime32(ToNTP32(t)) within 2^-16 s (float rounding of ToNTP: 1 us)")
}
