//go:build verif

package verifchain

import (
	"github.com/pion/interceptor"
	"github.com/pion/interceptor/pkg/packetdump"
	"github.com/pion/rtcp"
	"github.com/pion/rtp"

	vr "github.com/pion/interceptor/internal/verifrt"
)

type gateWriter struct {
	gate   chan struct{}
	writes int
}

func (g *gateWriter) Write(p []byte) (int, error) {
	g.writes++
	<-g.gate // the dump target is slow: the logger goroutine is busy in here
	return len(p), nil
}

// HC11DumpHandoff: packetdump with a slow dump target: a first packet is being written by the logger
// goroutine, a second reader/writer call is parked in the hand-off to that goroutine when Close is
// called. Close must release the parked call (passed through), both calls return, Close returns once
// the target lets the first dump finish, and no goroutine is left behind. RTP and RTCP paths of the
// receiver and of the sender interceptor.
func HC11DumpHandoff() {
	g := &gateWriter{gate: make(chan struct{})}
	binfmt := packetdump.RTPBinaryFormatter(func(*rtp.Packet, interceptor.Attributes) ([]byte, error) { return []byte{1}, nil })
	binfmtC := packetdump.RTCPBinaryFormatter(func(rtcp.Packet, interceptor.Attributes) ([]byte, error) { return []byte{2}, nil })
	sender := vr.Concretize(vr.NondetInt(0, 1)) == 1
	useRTCP := vr.Concretize(vr.NondetInt(0, 1)) == 1
	var f interceptor.Factory
	var err error
	if sender {
		f, err = packetdump.NewSenderInterceptor(packetdump.RTPWriter(g), packetdump.RTCPWriter(g), binfmt, binfmtC)
	} else {
		f, err = packetdump.NewReceiverInterceptor(packetdump.RTPWriter(g), packetdump.RTCPWriter(g), binfmt, binfmtC)
	}
	vr.Assert(err == nil, "factory")
	it, err := f.NewInterceptor("")
	vr.Assert(err == nil, "interceptor")
	pli, _ := (&rtcp.PictureLossIndication{SenderSSRC: 1, MediaSSRC: 2}).Marshal()
	info := &interceptor.StreamInfo{SSRC: 2}
	var call func()
	switch {
	case sender && useRTCP:
		w := it.BindRTCPWriter(interceptor.RTCPWriterFunc(func([]rtcp.Packet, interceptor.Attributes) (int, error) { return 0, nil }))
		call = func() { _, _ = w.Write([]rtcp.Packet{&rtcp.PictureLossIndication{SenderSSRC: 1, MediaSSRC: 2}}, nil) }
	case sender:
		w := it.BindLocalStream(info, interceptor.RTPWriterFunc(func(_ *rtp.Header, p []byte, _ interceptor.Attributes) (int, error) { return len(p), nil }))
		call = func() { _, _ = w.Write(&rtp.Header{Version: 2, SSRC: 2}, []byte{9}, nil) }
	case useRTCP:
		r := it.BindRTCPReader(interceptor.RTCPReaderFunc(func(b []byte, a interceptor.Attributes) (int, interceptor.Attributes, error) {
			return copy(b, pli), a, nil
		}))
		call = func() { _, _, _ = r.Read(make([]byte, 64), nil) }
	default:
		r := it.BindRemoteStream(info, interceptor.RTPReaderFunc(func(b []byte, a interceptor.Attributes) (int, interceptor.Attributes, error) {
			return copy(b, []byte{0x80, 96, 0, 1, 0, 0, 0, 1, 0, 0, 0, 2}), a, nil
		}))
		call = func() { _, _, _ = r.Read(make([]byte, 64), nil) }
	}
	done1, done2, closed := false, false, false
	go func() { call(); done1 = true }()
	vr.Yield() // the logger goroutine takes the first dump and blocks in the dump target
	go func() { call(); done2 = true }()
	vr.Yield() // the second call is parked in the hand-off
	if g.writes == 1 && !done2 {
		vr.Cover("call parked in the hand-off while the logger is busy")
	}
	go func() { _ = it.Close(); closed = true }()
	vr.Yield()
	vr.Assert(done2, "a call parked in the hand-off when Close is called returns")
	close(g.gate) // the dump target finishes
	vr.Yield()
	vr.Assert(done1 && done2 && closed, "both calls and Close return")
	vr.Assert(vr.LiveThreads() == 0, "no goroutine is left behind after Close")
	call() // traffic after Close returns
	vr.Cover("closed")
}
