//go:build verif

// Package verifchain hosts the chain-level harnesses (it may import every interceptor package).
package verifchain

import (
	"errors"

	"github.com/pion/interceptor"
	"github.com/pion/interceptor/pkg/cc"
	"github.com/pion/interceptor/pkg/flexfec"
	"github.com/pion/interceptor/pkg/intervalpli"
	"github.com/pion/interceptor/pkg/jitterbuffer"
	"github.com/pion/interceptor/pkg/nack"
	"github.com/pion/interceptor/pkg/packetdump"
	"github.com/pion/interceptor/pkg/pacing"
	"github.com/pion/interceptor/pkg/report"
	"github.com/pion/interceptor/pkg/rfc8888"
	"github.com/pion/interceptor/pkg/rtpfb"
	"github.com/pion/interceptor/pkg/stats"
	"github.com/pion/interceptor/pkg/twcc"
	"github.com/pion/rtcp"
	"github.com/pion/rtp"

	vr "github.com/pion/interceptor/internal/verifrt"
)

const twccURI = "http://www.ietf.org/id/draft-holmer-rmcat-transport-wide-cc-extensions-01"

// proxy counts lifecycle calls on a chain member and injects a Close error.
type proxy struct {
	interceptor.Interceptor
	closes, unbindLocal, unbindRemote int
	closeErr                          error
}

func (p *proxy) Close() error {
	p.closes++
	err := p.Interceptor.Close()
	if p.closeErr != nil {
		return p.closeErr
	}
	return err
}
func (p *proxy) UnbindLocalStream(i *interceptor.StreamInfo) {
	p.unbindLocal++
	p.Interceptor.UnbindLocalStream(i)
}
func (p *proxy) UnbindRemoteStream(i *interceptor.StreamInfo) {
	p.unbindRemote++
	p.Interceptor.UnbindRemoteStream(i)
}

func member(k int) interceptor.Interceptor {
	var f interceptor.Factory
	var err error
	switch k {
	case 0:
		return &interceptor.NoOp{}
	case 1:
		f, err = twcc.NewHeaderExtensionInterceptor()
	case 2:
		f, err = nack.NewResponderInterceptor()
	case 3:
		f, err = nack.NewGeneratorInterceptor()
	case 4:
		f, err = report.NewSenderInterceptor()
	case 5:
		f, err = report.NewReceiverInterceptor()
	case 6:
		f, err = twcc.NewSenderInterceptor()
	case 7:
		f, err = rfc8888.NewSenderInterceptor()
	case 8:
		f, err = packetdump.NewReceiverInterceptor()
	case 10:
		f, err = intervalpli.NewReceiverInterceptor()
	case 11:
		f, err = rtpfb.NewInterceptor()
	case 12:
		f, err = stats.NewInterceptor()
	case 13:
		f, err = flexfec.NewFecInterceptor()
	case 14:
		f, err = packetdump.NewSenderInterceptor()
	case 16:
		f = pacing.NewInterceptor()
	case 17:
		f, err = cc.NewInterceptor(nil) // default estimator: gcc.NewSendSideBWE with the leaky bucket pacer
	default:
		f, err = jitterbuffer.NewInterceptor()
	}
	vr.Assert(err == nil, "factory constructs")
	i, err := f.NewInterceptor("")
	vr.Assert(err == nil && i != nil, "interceptor constructs")
	return i
}

var (
	errDown  = errors.New("downstream failure")
	errClose = [2]error{errors.New("close failure 0"), errors.New("close failure 1")}
	errClose2 = errors.New("close failure 2")
)

type wrec struct {
	hdr     rtp.Header
	payload [3]byte
	n       int
}

// HC01Chain: every ordered pair of pass-through interceptors; two outgoing packets with an error
// injected at a symbolic position; one incoming packet (optionally failing); Unbind and Close.
func HC01Chain() {
	nk := vr.Param("members", 8)
	a := vr.Concretize(vr.NondetInt(0, nk-1))
	b := vr.Concretize(vr.NondetInt(0, nk-1))
	if fa := vr.Param("first", -1); fa >= 0 {
		a = fa // pair a fixed extra interceptor kind with every kind below `members`
		if vr.Param("swap", 0) != 0 {
			a, b = b, a
		}
	}
	pa, pb := &proxy{Interceptor: member(a)}, &proxy{Interceptor: member(b)}
	if vr.NondetBool() {
		pa.closeErr = errClose[0]
	}
	if vr.NondetBool() {
		pb.closeErr = errClose[1]
	}
	// optionally the second member is itself a chain (nested chains must keep every Close error)
	pc := &proxy{Interceptor: &interceptor.NoOp{}}
	nested := vr.Param("nested", 0) != 0
	var chain *interceptor.Chain
	if nested {
		if vr.NondetBool() {
			pc.closeErr = errClose2
		}
		chain = interceptor.NewChain([]interceptor.Interceptor{pa, interceptor.NewChain([]interceptor.Interceptor{pb, pc})})
	} else {
		chain = interceptor.NewChain([]interceptor.Interceptor{pa, pb})
	}

	var wlog [8]wrec
	nw := 0
	failAt := vr.Concretize(vr.NondetInt(0, 2)) // 0,1: fail that write; 2: never
	down := interceptor.RTPWriterFunc(func(h *rtp.Header, p []byte, _ interceptor.Attributes) (int, error) {
		idx := nw
		if nw < len(wlog) {
			wlog[nw].hdr = h.Clone()
			wlog[nw].n = len(p)
			copy(wlog[nw].payload[:], p)
		}
		nw++
		if idx == failAt {
			return 0, errDown
		}
		return len(p) + 12, nil
	})
	rtcpOut := 0
	rtcpDown := interceptor.RTCPWriterFunc(func(pkts []rtcp.Packet, _ interceptor.Attributes) (int, error) {
		rtcpOut++
		return 0, nil
	})
	chain.BindRTCPWriter(rtcpDown)
	info := &interceptor.StreamInfo{SSRC: 0x1111, ClockRate: 90000, PayloadType: 96,
		RTPHeaderExtensions: []interceptor.RTPHeaderExtension{{URI: twccURI, ID: 5}},
		RTCPFeedback:        []interceptor.RTCPFeedback{{Type: "nack"}, {Type: "transport-cc"}, {Type: "ack", Parameter: "ccfb"}}}
	w := chain.BindLocalStream(info, down)

	// outgoing
	var sent [2]wrec
	for i := 0; i < 2; i++ {
		pl := vr.NondetBytes(3)
		n := vr.NondetInt(0, 3)
		hdr := &rtp.Header{Version: 2, SSRC: 0x1111, PayloadType: 96, SequenceNumber: uint16(65535 + i), Timestamp: vr.NondetU32(), Marker: vr.NondetBool()}
		sent[i].hdr = hdr.Clone()
		sent[i].n = n
		copy(sent[i].payload[:], pl)
		before := nw
		got, err := w.Write(hdr, pl[:n], nil)
		vr.Assert(nw == before+1, "application packet reaches the next writer exactly once")
		if before == failAt {
			vr.Cover("write error injected")
			vr.Assert(err != nil && errors.Is(err, errDown), "writer error is returned to the caller")
		} else {
			vr.Assert(err == nil && got == n+12, "writer result is returned to the caller")
		}
		rec := wlog[before]
		vr.Assert(rec.n == n, "payload length unchanged")
		for j := 0; j < 3; j++ {
			if j < n {
				vr.Assert(rec.payload[j] == sent[i].payload[j], "payload bytes unchanged")
			}
		}
		vr.Assert(rec.hdr.SSRC == 0x1111 && rec.hdr.PayloadType == 96 && rec.hdr.SequenceNumber == sent[i].hdr.SequenceNumber &&
			rec.hdr.Timestamp == sent[i].hdr.Timestamp && rec.hdr.Marker == sent[i].hdr.Marker && rec.hdr.Version == 2 && !rec.hdr.Padding && len(rec.hdr.CSRC) == 0, "header fields unchanged")
		ids := rec.hdr.GetExtensionIDs()
		if a == 1 || b == 1 {
			vr.Assert(len(ids) == 1 && ids[0] == 5, "only the transport-wide-CC extension is added")
		} else {
			vr.Assert(len(ids) == 0 && !rec.hdr.Extension, "no extension added")
		}
	}

	// incoming
	rfail := vr.NondetBool()
	var fill [16]byte
	rn := 0
	up := interceptor.RTPReaderFunc(func(buf []byte, at interceptor.Attributes) (int, interceptor.Attributes, error) {
		if rfail {
			return 0, nil, errDown
		}
		body := vr.NondetBytes(15)
		buf[0] = 0x80
		fill[0] = 0x80
		for i := 0; i < 15; i++ {
			buf[1+i] = body[i]
			fill[1+i] = body[i]
		}
		buf[1] &= 0x7f
		fill[1] = buf[1]
		rn = 12 + vr.NondetInt(0, 4)
		return rn, at, nil
	})
	rinfo := &interceptor.StreamInfo{SSRC: 0x2222, ClockRate: 90000, PayloadType: 96,
		RTPHeaderExtensions: []interceptor.RTPHeaderExtension{{URI: twccURI, ID: 5}},
		RTCPFeedback:        []interceptor.RTCPFeedback{{Type: "nack"}, {Type: "transport-cc"}}}
	rd := chain.BindRemoteStream(rinfo, up)
	rbuf := make([]byte, 32)
	n, _, err := rd.Read(rbuf, nil)
	if rfail {
		vr.Cover("read error injected")
		vr.Assert(err != nil && errors.Is(err, errDown), "reader error is returned to the caller")
	} else {
		vr.Cover("packet read")
		vr.Assert(err == nil && n == rn, "read length handed on unchanged")
		for i := 0; i < 16; i++ {
			vr.Assert(rbuf[i] == fill[i], "read bytes handed on unchanged")
		}
	}

	// lifecycle
	chain.UnbindLocalStream(info)
	chain.UnbindRemoteStream(rinfo)
	cerr := chain.Close()
	vr.Assert(pa.closes == 1 && pb.closes == 1, "Close delivered to every member exactly once")
	vr.Assert(pa.unbindLocal == 1 && pb.unbindLocal == 1 && pa.unbindRemote == 1 && pb.unbindRemote == 1, "Unbind delivered to every member exactly once")
	if pa.closeErr != nil {
		vr.Assert(cerr != nil && errors.Is(cerr, errClose[0]), "first Close error preserved")
	}
	if pb.closeErr != nil {
		vr.Cover("close error")
		vr.Assert(cerr != nil && errors.Is(cerr, errClose[1]), "second Close error preserved")
	}
	if nested {
		vr.Assert(pc.closes == 1 && pc.unbindLocal == 1 && pc.unbindRemote == 1, "nested member: Close/Unbind delivered exactly once")
		if pc.closeErr != nil {
			vr.Cover("nested close error")
			vr.Assert(cerr != nil && errors.Is(cerr, errClose2), "Close error of a nested chain member preserved")
		}
	}
	if pa.closeErr == nil && pb.closeErr == nil && pc.closeErr == nil {
		vr.Assert(cerr == nil, "no Close error invented")
	}
	vr.Assert(vr.LiveThreads() == 0, "no goroutine survives Close")
	before := rtcpOut
	vr.Yield()
	vr.Assert(rtcpOut == before, "nothing is written after Close")
}
