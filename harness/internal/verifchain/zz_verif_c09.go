//go:build verif

package verifchain

import (
	"time"

	"github.com/pion/interceptor"
	"github.com/pion/interceptor/internal/cc"
	"github.com/pion/interceptor/pkg/twcc"
	"github.com/pion/rtcp"
	"github.com/pion/rtp"

	vr "github.com/pion/interceptor/internal/verifrt"
)

// HC09Compose: feedback produced by the library's own TWCC recorder is decoded by the gcc feedback
// adapter: every sent packet that was recorded as received comes back with its recorded arrival
// (within the 250 us wire resolution), every sent packet that was not recorded comes back as lost.
func HC09Compose() {
	bases := [2]uint16{100, 65533}
	base := bases[vr.Concretize(vr.NondetInt(0, 1))]
	rec := twcc.NewRecorder(5)
	a := cc.NewFeedbackAdapter()
	attrs := interceptor.Attributes{cc.TwccExtensionAttributesKey: uint8(5)}
	dep := time.Unix(1700000000, 0)
	for i := 0; i < 4; i++ {
		hdr := rtp.Header{Version: 2}
		ext, _ := (&rtp.TransportCCExtension{TransportSequence: base + uint16(i)}).Marshal()
		_ = hdr.SetExtension(5, ext)
		vr.Assert(a.OnSent(dep, &hdr, 100, attrs) == nil, "sent")
	}
	var arrived [4]bool
	var at [4]int64
	now := int64(5_000_000)
	steps := [4]int64{0, 130, 20000, 70000}
	arrived[0] = true
	for i := 0; i < 4; i++ {
		if i > 0 {
			arrived[i] = vr.Concretize(vr.NondetInt(0, 1)) == 1
		}
		if !arrived[i] {
			continue
		}
		now += steps[vr.Concretize(vr.NondetInt(0, 3))]
		at[i] = now
		rec.Record(9, base+uint16(i), now)
	}
	last := 0
	for i := 0; i < 4; i++ {
		if arrived[i] {
			last = i
		}
	}
	pkts := rec.BuildFeedbackPacket()
	vr.Assert(len(pkts) >= 1, "feedback built")
	var seen [4]int
	for _, p := range pkts {
		fb, ok := p.(*rtcp.TransportLayerCC)
		vr.Assert(ok, "TWCC packet")
		acks, err := a.OnTransportCCFeedback(dep, fb)
		vr.Assert(err == nil, "the library's own feedback is accepted by its own decoder")
		for _, ack := range acks {
			off := int(ack.SequenceNumber - base)
			if ack.Departure.IsZero() || off < 0 || off > 3 {
				continue // padding / unknown entries: known finding C09-extra-acks of the adapter harness
			}
			seen[off]++
			if arrived[off] {
				d := ack.Arrival.Sub(time.Time{}) - time.Duration(at[off])*time.Microsecond
				vr.Assert(!ack.Arrival.IsZero() && d >= -125*time.Microsecond && d <= 125*time.Microsecond, "decoded arrival equals the recorded arrival within the wire resolution")
			} else {
				vr.Assert(ack.Arrival.IsZero(), "a packet that was not recorded is decoded as lost")
			}
		}
	}
	vr.Cover("composed")
	for i := 0; i <= last; i++ {
		vr.Assert(seen[i] == 1, "every sent packet up to the highest received is acknowledged exactly once")
	}
}
