//go:build verif

package verifchain

import (
	"time"

	"github.com/pion/interceptor"
	"github.com/pion/rtcp"
	"github.com/pion/rtp"

	vr "github.com/pion/interceptor/internal/verifrt"
)

// HC11Lifecycle: for one interceptor kind: bind everything, optional traffic, Close at a symbolic
// point, then traffic after Close. Close must return with every goroutine finished; reads and
// writes after Close must return (the engine reports "all goroutines blocked" otherwise); nothing
// is written to the RTCP writer after Close; Unbind then Bind again works.
func HC11Lifecycle() {
	k := vr.Param("kind", 0)
	it := member(k)
	rtcpOut := 0
	it.BindRTCPWriter(interceptor.RTCPWriterFunc(func(p []rtcp.Packet, _ interceptor.Attributes) (int, error) {
		rtcpOut++
		if vr.NondetBool() {
			return 0, errDown
		}
		return 0, nil
	}))
	info := &interceptor.StreamInfo{SSRC: 0x1111, ClockRate: 90000, PayloadType: 96,
		RTPHeaderExtensions: []interceptor.RTPHeaderExtension{{URI: twccURI, ID: 5}},
		RTCPFeedback:        []interceptor.RTCPFeedback{{Type: "nack"}, {Type: "transport-cc"}, {Type: "ack", Parameter: "ccfb"}}}
	rinfo := &interceptor.StreamInfo{SSRC: 0x2222, ClockRate: 90000, PayloadType: 96,
		RTPHeaderExtensions: []interceptor.RTPHeaderExtension{{URI: twccURI, ID: 5}},
		RTCPFeedback:        []interceptor.RTCPFeedback{{Type: "nack"}, {Type: "transport-cc"}, {Type: "ack", Parameter: "ccfb"}}}
	nw := 0
	w := it.BindLocalStream(info, interceptor.RTPWriterFunc(func(h *rtp.Header, p []byte, _ interceptor.Attributes) (int, error) {
		nw++
		return len(p) + 12, nil
	}))
	mkReader := func() interceptor.RTPReader {
		return interceptor.RTPReaderFunc(func(buf []byte, at interceptor.Attributes) (int, interceptor.Attributes, error) {
			// a well-formed 16-byte packet carrying the transport-wide-CC extension (id 5, one-byte profile)
			pkt := [20]byte{0x90, 96, 0, 7, 0, 0, 0, 1, 0, 0, 0x22, 0x22, 0xBE, 0xDE, 0, 1, 0x51, 0, 9, 0}
			copy(buf, pkt[:])
			return 20, at, nil
		})
	}
	rd := it.BindRemoteStream(rinfo, mkReader())
	rr := it.BindRTCPReader(interceptor.RTCPReaderFunc(func(buf []byte, at interceptor.Attributes) (int, interceptor.Attributes, error) {
		return 0, at, errDown
	}))
	buf := make([]byte, 64)
	traffic := func() {
		_, _ = w.Write(&rtp.Header{Version: 2, SSRC: 0x1111, PayloadType: 96, SequenceNumber: 7}, buf[:2], nil)
		_, _, _ = rd.Read(buf, nil)
		_, _, _ = rr.Read(buf, nil)
	}
	if vr.NondetBool() {
		traffic()
		vr.Cover("traffic before close")
	}
	if vr.NondetBool() {
		// unbind and bind the same streams again: must not block or panic
		it.UnbindLocalStream(info)
		it.UnbindRemoteStream(rinfo)
		w = it.BindLocalStream(info, interceptor.RTPWriterFunc(func(h *rtp.Header, p []byte, _ interceptor.Attributes) (int, error) {
			nw++
			return len(p) + 12, nil
		}))
		rd = it.BindRemoteStream(rinfo, mkReader())
		traffic()
		vr.Cover("rebind")
	}
	vr.Yield()
	err := it.Close()
	_ = err
	vr.Assert(vr.LiveThreads() == 0, "Close returns only after every goroutine the interceptor started has finished")
	before := rtcpOut
	traffic() // packets read or written after Close return instead of blocking
	vr.Cover("traffic after close returned")
	vr.Yield()
	vr.Assert(rtcpOut == before, "nothing more is written to the RTCP writer after Close")
	vr.Assert(vr.LiveThreads() == 0, "no goroutine is started after Close")
	it.UnbindLocalStream(info)
	it.UnbindRemoteStream(rinfo)
}

// HC11ReadThenClose: a reader goroutine is inside Read (possibly parked in the interceptor's
// hand-off because no RTCP writer was ever bound, so no loop is receiving) when Close is called:
// the Read must return, and no goroutine may be left behind.
func HC11ReadThenClose() {
	k := vr.Param("kind", 7)
	it := member(k)
	if vr.NondetBool() {
		it.BindRTCPWriter(interceptor.RTCPWriterFunc(func(p []rtcp.Packet, _ interceptor.Attributes) (int, error) { return 0, nil }))
		vr.Cover("writer bound")
	}
	rinfo := &interceptor.StreamInfo{SSRC: 0x2222, ClockRate: 90000, PayloadType: 96,
		RTPHeaderExtensions: []interceptor.RTPHeaderExtension{{URI: twccURI, ID: 5}},
		RTCPFeedback:        []interceptor.RTCPFeedback{{Type: "nack"}, {Type: "transport-cc"}, {Type: "ack", Parameter: "ccfb"}}}
	rd := it.BindRemoteStream(rinfo, interceptor.RTPReaderFunc(func(buf []byte, at interceptor.Attributes) (int, interceptor.Attributes, error) {
		pkt := [20]byte{0x90, 96, 0, 7, 0, 0, 0, 1, 0, 0, 0x22, 0x22, 0xBE, 0xDE, 0, 1, 0x51, 0, 9, 0}
		copy(buf, pkt[:])
		return 20, at, nil
	}))
	done := false
	go func() {
		buf := make([]byte, 64)
		_, _, _ = rd.Read(buf, nil)
		done = true
	}()
	vr.Yield() // the reader runs until it returns or parks
	_ = it.Close()
	vr.Yield()
	vr.Cover("closed")
	vr.Assert(done, "a Read that was in progress when Close was called returns")
	vr.Assert(vr.LiveThreads() == 0, "no goroutine is left behind after Close")
}

func mentions(p rtcp.Packet, ssrc uint32) bool {
	switch x := p.(type) {
	case *rtcp.SenderReport:
		return x.SSRC == ssrc
	case *rtcp.ReceiverReport:
		for _, r := range x.Reports {
			if r.SSRC == ssrc {
				return true
			}
		}
	case *rtcp.TransportLayerNack:
		return x.MediaSSRC == ssrc
	case *rtcp.PictureLossIndication:
		return x.MediaSSRC == ssrc
	case *rtcp.TransportLayerCC:
		return x.MediaSSRC == ssrc
	case *rtcp.CCFeedbackReport:
		for _, b := range x.ReportBlocks {
			if b.MediaSSRC == ssrc {
				return true
			}
		}
	}
	return false
}

// HC11Unbind: feedback/report emitters: a stream is bound, sees traffic, a tick produces feedback
// about it (vacuity witness); after Unbind of that stream returns, further ticks emit nothing about
// its SSRC.
func HC11Unbind() {
	k := vr.Param("kind", 5)
	it := member(k)
	about := 0
	var lastAbout rtcp.Packet
	it.BindRTCPWriter(interceptor.RTCPWriterFunc(func(pkts []rtcp.Packet, _ interceptor.Attributes) (int, error) {
		for _, p := range pkts {
			if mentions(p, 0x2222) {
				about++
				lastAbout = p
			}
		}
		return 0, nil
	}))
	vr.Yield()
	info := &interceptor.StreamInfo{SSRC: 0x2222, ClockRate: 90000, PayloadType: 96,
		RTCPFeedback: []interceptor.RTCPFeedback{{Type: "nack"}, {Type: "nack", Parameter: "pli"}, {Type: "ack", Parameter: "ccfb"}}}
	seq := uint16(10)
	local := k == 4
	buf := make([]byte, 64)
	if local {
		w := it.BindLocalStream(info, interceptor.RTPWriterFunc(func(h *rtp.Header, p []byte, _ interceptor.Attributes) (int, error) { return len(p), nil }))
		_, _ = w.Write(&rtp.Header{Version: 2, SSRC: 0x2222, SequenceNumber: 10, Timestamp: 5}, buf[:2], nil)
	} else {
		rd := it.BindRemoteStream(info, interceptor.RTPReaderFunc(func(b []byte, at interceptor.Attributes) (int, interceptor.Attributes, error) {
			pkt := [12]byte{0x80, 96, byte(seq >> 8), byte(seq), 0, 0, 0, 1, 0, 0, 0x22, 0x22}
			copy(b, pkt[:])
			return 12, at, nil
		}))
		_, _, _ = rd.Read(buf, nil)
		seq = 13 // a gap: 11 and 12 are missing
		_, _, _ = rd.Read(buf, nil)
	}
	vr.Yield()
	now := time.Unix(1800000000, 0)
	vr.FireTickers(now)
	vr.Yield()
	if about > 0 {
		vr.Cover("feedback about the stream before unbind")
	}
	if local {
		it.UnbindLocalStream(info)
	} else {
		it.UnbindRemoteStream(info)
	}
	vr.Yield() // anything already in flight may still go out
	about = 0
	for t := 0; t < 2; t++ {
		now = now.Add(time.Second)
		vr.FireTickers(now)
		vr.Yield()
	}
	vr.Assert(about == 0, "after Unbind returns no further feedback or report about that SSRC is emitted")
	// binding the same SSRC again starts from fresh state: one packet far away from the old numbers
	lastAbout = nil
	if local {
		w := it.BindLocalStream(info, interceptor.RTPWriterFunc(func(h *rtp.Header, p []byte, _ interceptor.Attributes) (int, error) { return len(p), nil }))
		_, _ = w.Write(&rtp.Header{Version: 2, SSRC: 0x2222, SequenceNumber: 30000, Timestamp: 77}, buf[:2], nil)
	} else {
		seq = 30000
		rd := it.BindRemoteStream(info, interceptor.RTPReaderFunc(func(b []byte, at interceptor.Attributes) (int, interceptor.Attributes, error) {
			pkt := [12]byte{0x80, 96, byte(seq >> 8), byte(seq), 0, 0, 0, 1, 0, 0, 0x22, 0x22}
			copy(b, pkt[:])
			return 12, at, nil
		}))
		_, _, _ = rd.Read(buf, nil)
	}
	vr.Yield()
	now = now.Add(time.Second)
	vr.FireTickers(now)
	vr.Yield()
	switch x := lastAbout.(type) {
	case *rtcp.ReceiverReport:
		vr.Cover("report after rebind")
		for _, r := range x.Reports {
			if r.SSRC == 0x2222 {
				vr.Assert(r.TotalLost == 0 && r.FractionLost == 0 && r.LastSequenceNumber == 30000, "rebound stream reports from fresh state")
			}
		}
	case *rtcp.SenderReport:
		vr.Cover("report after rebind")
		vr.Assert(x.PacketCount == 1 && x.OctetCount == 2, "rebound stream counts from fresh state")
	case *rtcp.CCFeedbackReport:
		vr.Cover("report after rebind")
		for _, b := range x.ReportBlocks {
			if b.MediaSSRC == 0x2222 {
				vr.Assert(b.BeginSequence == 30000 && len(b.MetricBlocks) == 1, "rebound stream reports from fresh state")
			}
		}
	case *rtcp.TransportLayerNack:
		vr.Assert(false, "a rebound stream has lost nothing yet: no NACK from the old receive log")
	}
	_ = it.Close()
	vr.Assert(vr.LiveThreads() == 0, "Close waits for the goroutines")
}

// HC11BindOrder: Bind calls issued before any RTCP writer is bound must return (a Bind, Unbind or
// Close call never blocks indefinitely, whatever lifecycle calls preceded it).
func HC11BindOrder() {
	k := vr.Param("kind", 10)
	it := member(k)
	fb := []interceptor.RTCPFeedback{{Type: "nack"}, {Type: "nack", Parameter: "pli"}, {Type: "transport-cc"}, {Type: "ack", Parameter: "ccfb"}}
	pass := interceptor.RTPReaderFunc(func(b []byte, at interceptor.Attributes) (int, interceptor.Attributes, error) { return 0, at, errDown })
	n := vr.Param("streams", 3)
	for i := 0; i < n; i++ {
		vr.KnownFinding("C11-intervalpli-bind-blocks", k == 10 && i >= 1)
		it.BindRemoteStream(&interceptor.StreamInfo{SSRC: uint32(100 + i), ClockRate: 90000, RTCPFeedback: fb}, pass)
		it.BindLocalStream(&interceptor.StreamInfo{SSRC: uint32(200 + i), ClockRate: 90000, RTCPFeedback: fb},
			interceptor.RTPWriterFunc(func(h *rtp.Header, p []byte, _ interceptor.Attributes) (int, error) { return 0, nil }))
	}
	vr.Cover("all binds returned")
	it.BindRTCPWriter(interceptor.RTCPWriterFunc(func(p []rtcp.Packet, _ interceptor.Attributes) (int, error) { return 0, nil }))
	vr.Yield()
	_ = it.Close()
	vr.Assert(vr.LiveThreads() == 0, "Close waits for the goroutines")
}
