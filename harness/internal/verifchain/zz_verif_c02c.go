//go:build verif

package verifchain

import (
	"github.com/pion/interceptor"
	"github.com/pion/rtcp"
	"github.com/pion/rtp"

	vr "github.com/pion/interceptor/internal/verifrt"
)

// HC02RawRTCP: ANY byte string of a given small length delivered as an incoming RTCP packet through
// the BindRTCPReader path of one interceptor kind (every byte symbolic, the real rtcp.Unmarshal
// decides what it is: SR, RR, SDES, BYE, NACK, PLI, FIR, TWCC, ... or garbage; XR excluded): no panic or index
// error, the result is the inner length or an error, never more bytes than given, and a well-formed
// packet afterwards is still handled.
func HC02RawRTCP() {
	k := vr.Param("kind", 12)
	L := vr.Param("len", 12)
	it := member(k)
	it.BindRTCPWriter(interceptor.RTCPWriterFunc(func(p []rtcp.Packet, _ interceptor.Attributes) (int, error) { return 0, nil }))
	info := &interceptor.StreamInfo{SSRC: 0x2222, ClockRate: 90000, PayloadType: 96,
		RTCPFeedback: []interceptor.RTCPFeedback{{Type: "nack"}, {Type: "transport-cc"}, {Type: "ack", Parameter: "ccfb"}}}
	_ = it.BindLocalStream(info, interceptor.RTPWriterFunc(func(h *rtp.Header, p []byte, _ interceptor.Attributes) (int, error) { return len(p), nil }))
	_ = it.BindRemoteStream(info, interceptor.RTPReaderFunc(func(b []byte, at interceptor.Attributes) (int, interceptor.Attributes, error) { return 0, at, errDown }))
	vr.Yield()
	phase := 0
	n := 0
	pli, _ := (&rtcp.PictureLossIndication{SenderSSRC: 1, MediaSSRC: 0x2222}).Marshal()
	rd := it.BindRTCPReader(interceptor.RTCPReaderFunc(func(buf []byte, at interceptor.Attributes) (int, interceptor.Attributes, error) {
		if phase == 0 {
			raw := vr.NondetBytes(L)
			// extended reports (XR, type 207) are decoded by pion/rtcp through package reflect, which the
			// engine does not model: outside this job's claim
			// (the type byte is drawn from a range that leaves 207 out: 0..206 or 208..255 per job)
			copy(buf, raw)
			for o := 1; o < L; o += 4 {
				// any byte that can be a packet-type field of a compound packet
				buf[o] = byte(vr.NondetInt(vr.Param("tlo", 0), vr.Param("thi", 206)))
			}
			for i := L; i < L+16 && i < len(buf); i++ {
				buf[i] = 0x81 // stale bytes beyond the packet
			}
			n = vr.NondetInt(0, L)
			return n, at, nil
		}
		return copy(buf, pli), at, nil
	}))
	buf := make([]byte, 64)
	got, _, err := rd.Read(buf, nil)
	vr.Cover("untrusted packet handled")
	if err == nil {
		vr.Cover("accepted")
	} else {
		vr.Cover("rejected")
	}
	vr.Assert(err != nil || got == n, "rejected with an error or passed on with the length it was given")
	vr.Assert(got <= n && got >= 0, "never reports more bytes than it was given")
	vr.Yield()
	phase = 1
	got2, _, err2 := rd.Read(buf, nil)
	vr.Assert(err2 == nil && got2 == len(pli), "keeps working for a subsequent well-formed packet")
	vr.Yield()
	_ = it.Close()
}
