//go:build verif

package verifchain

import (
	"github.com/pion/interceptor"
	"github.com/pion/rtcp"

	vr "github.com/pion/interceptor/internal/verifrt"
)

// HC02RawRTP: an arbitrary byte string of up to L bytes arrives as an RTP packet through the
// Bind*Remote reader of one interceptor kind (all bytes symbolic, stale bytes beyond n included):
// no panic / index error; the result is the inner n or an error; a well-formed packet afterwards
// is still handled.
func HC02RawRTP() {
	k := vr.Param("kind", 3)
	L := vr.Param("len", 16)
	it := member(k)
	it.BindRTCPWriter(interceptor.RTCPWriterFunc(func(p []rtcp.Packet, _ interceptor.Attributes) (int, error) { return 0, nil }))
	rinfo := &interceptor.StreamInfo{SSRC: 0x2222, ClockRate: 90000, PayloadType: 96,
		RTPHeaderExtensions: []interceptor.RTPHeaderExtension{{URI: twccURI, ID: 5}},
		RTCPFeedback:        []interceptor.RTCPFeedback{{Type: "nack"}, {Type: "transport-cc"}, {Type: "ack", Parameter: "ccfb"}}}
	phase := 0
	n := 0
	rd := it.BindRemoteStream(rinfo, interceptor.RTPReaderFunc(func(buf []byte, at interceptor.Attributes) (int, interceptor.Attributes, error) {
		if phase == 0 {
			raw := vr.NondetBytes(L)
			// the sequence-number field is kept within 8 of the probe packet's: a forward jump of up to
			// 2^15 is legitimate and only makes the bitmap-clearing loops long
			vr.Assume(raw[2] == 0 && raw[3] < 8)
			copy(buf, raw)
			n = vr.NondetInt(0, L)
			return n, at, nil
		}
		pkt := [20]byte{0x90, 96, 0, 7, 0, 0, 0, 1, 0, 0, 0x22, 0x22, 0xBE, 0xDE, 0, 1, 0x51, 0, 9, 0}
		copy(buf, pkt[:])
		return 20, at, nil
	}))
	buf := make([]byte, 64)
	got, _, err := rd.Read(buf, nil)
	vr.Cover("untrusted packet handled")
	vr.Assert(err != nil || got == n, "rejected with an error or passed on with the length it was given")
	vr.Assert(got <= n && got >= 0, "never reports more bytes than it was given")
	phase = 1
	got2, _, err2 := rd.Read(buf, nil)
	vr.Assert(err2 == nil && got2 == 20, "keeps working for a subsequent well-formed packet")
	_ = it.Close()
}
