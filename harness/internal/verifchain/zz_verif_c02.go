//go:build verif

package verifchain

import (
	"github.com/pion/interceptor"
	"github.com/pion/rtcp"

	vr "github.com/pion/interceptor/internal/verifrt"
)

// HC02RawRTP: an arbitrary byte string of up to L bytes arrives as an RTP packet through the
// Bind*Remote reader of one interceptor kind (all bytes symbolic, stale bytes beyond n included):
// no panic / index error; the result is the inner n or an error; a well-formed packet afterwards
// is still handled.
func HC02RawRTP() {
	k := vr.Param("kind", 3)
	L := vr.Param("len", 16)
	it := member(k)
	it.BindRTCPWriter(interceptor.RTCPWriterFunc(func(p []rtcp.Packet, _ interceptor.Attributes) (int, error) { return 0, nil }))
	rinfo := &interceptor.StreamInfo{SSRC: 0x2222, ClockRate: 90000, PayloadType: 96,
		RTPHeaderExtensions: []interceptor.RTPHeaderExtension{{URI: twccURI, ID: 5}},
		RTCPFeedback:        []interceptor.RTCPFeedback{{Type: "nack"}, {Type: "transport-cc"}, {Type: "ack", Parameter: "ccfb"}}}
	phase := 0
	n := 0
	raw0 := byte(0)
	rd := it.BindRemoteStream(rinfo, interceptor.RTPReaderFunc(func(buf []byte, at interceptor.Attributes) (int, interceptor.Attributes, error) {
		if phase == 0 {
			raw := vr.NondetBytes(L)
			// the sequence-number field is kept within 8 of the probe packet's: a forward jump of up to
			// 2^15 is legitimate and only makes the bitmap-clearing loops long
			vr.Assume(raw[2] == 0 && raw[3] < 8)
			copy(buf, raw)
			raw0 = raw[0]
			for i := L; i < L+32 && i < len(buf); i++ {
				buf[i] = 0x11 // stale bytes of an earlier, longer packet beyond the symbolic part
			}
			n = vr.NondetInt(0, L)
			return n, at, nil
		}
		pkt := [20]byte{0x90, 96, 0, 7, 0, 0, 0, 1, 0, 0, 0x22, 0x22, 0xBE, 0xDE, 0, 1, 0x51, 0, 9, 0}
		copy(buf, pkt[:])
		return 20, at, nil
	}))
	buf := make([]byte, 64)
	got, _, err := rd.Read(buf, nil)
	vr.Cover("untrusted packet handled")
	vr.Assert(err != nil || got == n, "rejected with an error or passed on with the length it was given")
	vr.Assert(got <= n && got >= 0, "never reports more bytes than it was given")
	if k >= 3 && k <= 8 {
		// interceptors that parse the RTP header: a packet shorter than the header it announces
		// (CSRC count) must be rejected, whatever stale bytes follow it in the buffer
		cc := int(raw0 & 0x0F)
		if n < 12+4*cc {
			vr.Cover("truncated packet")
			vr.Assert(err != nil, "a truncated packet is rejected with an error, not parsed out of stale buffer contents")
		}
	}
	phase = 1
	got2, _, err2 := rd.Read(buf, nil)
	vr.Assert(err2 == nil && got2 == 20, "keeps working for a subsequent well-formed packet")
	_ = it.Close()
}

// HC02ExtRTP: packets that carry a header extension block with arbitrary contents (one-byte or
// two-byte profile, one 32-bit word whose id/length nibbles and data are symbolic, possibly
// truncated) through the readers that look up the transport-wide-CC extension.
func HC02ExtRTP() {
	k := vr.Param("kind", 6)
	it := member(k)
	it.BindRTCPWriter(interceptor.RTCPWriterFunc(func(p []rtcp.Packet, _ interceptor.Attributes) (int, error) { return 0, nil }))
	rinfo := &interceptor.StreamInfo{SSRC: 0x2222, ClockRate: 90000, PayloadType: 96,
		RTPHeaderExtensions: []interceptor.RTPHeaderExtension{{URI: twccURI, ID: 5}},
		RTCPFeedback:        []interceptor.RTCPFeedback{{Type: "nack"}, {Type: "transport-cc"}, {Type: "ack", Parameter: "ccfb"}}}
	n := 0
	profiles := [2][2]byte{{0xBE, 0xDE}, {0x10, 0x00}}
	prof := profiles[vr.Concretize(vr.NondetInt(0, 1))]
	rd := it.BindRemoteStream(rinfo, interceptor.RTPReaderFunc(func(buf []byte, at interceptor.Attributes) (int, interceptor.Attributes, error) {
		pkt := [16]byte{0x90, 96, 0, 7, 0, 0, 0, 1, 0, 0, 0x22, 0x22, prof[0], prof[1], 0, 1}
		copy(buf, pkt[:])
		ext := vr.NondetBytes(4)
		copy(buf[16:], ext)
		for i := 20; i < 40; i++ {
			buf[i] = 0x11
		}
		n = vr.NondetInt(16, 22)
		return n, at, nil
	}))
	buf := make([]byte, 64)
	got, _, err := rd.Read(buf, nil)
	vr.Cover("extension packet handled")
	vr.Assert(err != nil || got == n, "rejected with an error or passed on with the length it was given")
	_ = it.Close()
}
