//go:build verif

package rtpbuffer

import (
	"github.com/pion/rtp"

	vr "github.com/pion/interceptor/internal/verifrt"
)

type c04sent struct {
	seq     uint16
	ts      uint32
	ssrc    uint32
	pt      uint8
	marker  bool
	n       int
	b       [3]byte
	csrc    uint32
	hasCSRC bool
}

// HC04BufferHistory: bounded send histories through PacketFactoryCopy + RTPBuffer, then one
// retransmission lookup with an arbitrary sequence number, against an association-list reference.
func HC04BufferHistory() {
	size := uint16(vr.Param("size", 4))
	ops := vr.Param("ops", 4)
	fwd := vr.Param("fwd", 3)
	back := vr.Param("back", 6)
	rtx := vr.Param("rtx", 0) != 0
	withCSRC := vr.Param("csrc", 0) != 0
	padForm := vr.Param("pad", 0) // 0 none, 1 header PaddingSize, 2 legacy padding inside the payload
	var rtxSsrc uint32
	var rtxPT uint8
	if rtx {
		rtxSsrc, rtxPT = 0xAABBCCDD, 97
	}
	pf := NewPacketFactoryCopy()
	rb, err := NewRTPBuffer(size)
	vr.Assert(err == nil, "size accepted")

	var sent [6]c04sent
	var highest int64
	base := int64(vr.NondetInt(1<<17, 1<<17+65535))
	var ts [6]int64
	for j := 0; j < ops; j++ {
		var t int64
		if j == 0 {
			t = base
			highest = t
		} else {
			t = highest + int64(vr.NondetInt(-back, fwd))
		}
		for i := 0; i < j; i++ {
			vr.Assume(ts[i] != t) // property speaks of "the packet sent with that number": no duplicates
		}
		ts[j] = t
		vr.KnownFinding("C04-late-evict", t <= highest-int64(size))
		if t > highest {
			highest = t
		}
		s := &sent[j]
		s.seq = uint16(t)
		s.ts, s.ssrc, s.pt, s.marker = vr.NondetU32(), vr.NondetU32(), uint8(vr.NondetInt(0, 127)), vr.NondetBool()
		s.n = vr.NondetInt(0, 3)
		pl := vr.NondetBytes(3)
		copy(s.b[:], pl)
		s.hasCSRC = withCSRC
		hdr := &rtp.Header{Version: 2, Marker: s.marker, PayloadType: s.pt, SequenceNumber: s.seq, Timestamp: s.ts, SSRC: s.ssrc}
		switch padForm {
		case 1:
			hdr.Padding, hdr.PaddingSize = true, uint8(vr.NondetInt(1, 4))
		case 2:
			// legacy: the last payload byte is the padding length (1 here) and belongs to the padding
			vr.Assume(s.n >= 1)
			hdr.Padding = true
			pl[s.n-1] = 1
			s.b[s.n-1] = 1
		}
		if s.hasCSRC {
			s.csrc = vr.NondetU32()
			hdr.CSRC = []uint32{s.csrc}
		}
		pkt, perr := pf.NewPacket(hdr, pl[:s.n], rtxSsrc, rtxPT)
		vr.Assert(perr == nil && pkt != nil, "packet accepted")
		rb.Add(pkt)
		// the caller reuses its buffers immediately
		pl[0], pl[1], pl[2] = 0xEE, 0xEE, 0xEE
		hdr.Timestamp, hdr.SSRC, hdr.SequenceNumber = 0xEEEEEEEE, 0xEEEEEEEE, 0xEEEE
		if s.hasCSRC {
			hdr.CSRC[0] = 0xEEEEEEEE
		}
	}
	q := highest - int64(vr.NondetInt(-2, int(size)+back+2))
	want := -1
	for j := 0; j < ops; j++ {
		if ts[j] == q && highest-q < int64(size) && q <= highest {
			want = j
		}
	}
	p := rb.Get(uint16(q))
	if want < 0 {
		vr.Cover("not retransmittable")
		vr.Assert(p == nil, "never sent / outside window: nothing")
		return
	}
	vr.Cover("retransmittable")
	vr.Assert(p != nil, "sent and inside window: found")
	s := sent[want]
	h := p.Header()
	pay := p.Payload()
	vr.Assert(h.Timestamp == s.ts && h.Marker == s.marker && h.Version == 2, "header fields preserved")
	if s.hasCSRC {
		vr.Assert(len(h.CSRC) == 1 && h.CSRC[0] == s.csrc, "CSRC preserved")
	} else {
		vr.Assert(len(h.CSRC) == 0, "no CSRC invented")
	}
	if rtx {
		vr.Cover("rtx form")
		vr.Assert(h.SSRC == rtxSsrc && h.PayloadType == rtxPT, "RTX SSRC and PT")
		wantN := s.n
		if padForm == 2 {
			wantN = s.n - 1 // legacy in-payload padding is stripped
		}
		vr.Assert(len(pay) == wantN+2, "RTX payload = OSN + original payload without padding")
		vr.Assert(!h.Padding && h.PaddingSize == 0, "RTX form carries no padding")
		vr.Assert(pay[0] == uint8(s.seq>>8) && pay[1] == uint8(s.seq), "OSN prefix big endian")
		for i := 0; i < 3; i++ {
			if i < wantN {
				vr.Assert(pay[2+i] == s.b[i], "RTX payload bytes")
			}
		}
	} else {
		vr.Assert(h.SSRC == s.ssrc && h.PayloadType == s.pt && h.SequenceNumber == s.seq, "SSRC, PT, sequence number preserved")
		vr.Assert(len(pay) == s.n, "payload length preserved")
		for i := 0; i < 3; i++ {
			if i < s.n {
				vr.Assert(pay[i] == s.b[i], "payload bytes preserved")
			}
		}
	}
	p.Release()
}
