#!/usr/bin/env python3
"""Diff the three installed solvers on queries the engine actually produced.
usage: solver_diff.py [max_queries]   (development-time self-test, not a registered check)
Runs a few fast harnesses with -smtlog, rebuilds each push/pop block as a standalone script and
feeds it to z3 4.8.12, z3 5.1.0 and cvc5 1.0; any sat/unsat disagreement is printed and exits 1."""
import sys, os, glob, subprocess, tempfile, random, json, shutil
sys.path.insert(0, '/verif')
import importlib.machinery, importlib.util
l = importlib.machinery.SourceFileLoader('chk', '/verif/check'); spec = importlib.util.spec_from_loader('chk', l)
chk = importlib.util.module_from_spec(spec); l.exec_module(chk)
N = int(sys.argv[1]) if len(sys.argv) > 1 else 200
jobs = [("internal/sequencenumber", "HC20UnwrapStep", []), ("pkg/twcc", "HC15Streams", []), ("pkg/jitterbuffer", "HC18Ops", ["-set", "ops=3"]),
        ("pkg/flexfec", "HC14Masks", []), ("pkg/report", "HC07Step", []), ("internal/cc", "HC09Adapter", ["-set", "n=3"]), ("pkg/nack", "HC03MissingScan", ["-set", "maxd=4"])]
tmp = tempfile.mkdtemp(prefix="solverdiff-")
ov = os.path.join(tmp, "ov.json"); chk.write_overlay(ov)
queries = []
for pkg, entry, extra in jobs:
    d = os.path.join(tmp, entry); os.makedirs(d)
    subprocess.run([os.path.join('/verif/bin/gosym'), "-repo", "/repo", "-pkg", "./" + pkg, "-overlay", ov, "-entry", entry, "-out", os.path.join(d, "o.json"), "-smtlog", d] + extra,
                   env=chk.ENV, capture_output=True, text=True, timeout=600)
    for f in glob.glob(os.path.join(d, "z3-*.smt2")):
        defs, cur = [], None
        for line in open(f):
            line = line.rstrip("\n")
            if line.startswith("(push"):
                cur = []
            elif line.startswith("(pop"):
                if cur is not None:
                    queries.append((entry, "\n".join(x for x in defs if not x.startswith("(set-option")) + "\n" + "\n".join(x for x in cur if not x.startswith("(get-value") and not x.startswith("(set-option")) + "\n"))
                cur = None
            elif cur is not None:
                cur.append(line)
            else:
                defs.append(line)
random.seed(int(os.environ.get("VERIF_SEED", "0") or 0))
random.shuffle(queries)
queries = queries[:N]
solvers = {"z3-4.8.12": ["z3", "-T:20"], "z3-5.1.0": ["z3-new", "-T:20"], "cvc5": ["cvc5", "--tlimit=20000"]}
dis = 0; counts = {k: {"sat": 0, "unsat": 0, "other": 0} for k in solvers}
for i, (entry, q) in enumerate(queries):
    p = os.path.join(tmp, "q%d.smt2" % i); open(p, "w").write("(set-logic ALL)\n" + q)
    res = {}
    for name, cmd in solvers.items():
        try:
            r = subprocess.run(cmd + [p], capture_output=True, text=True, timeout=30).stdout.strip().split("\n")[0]
        except subprocess.TimeoutExpired:
            r = "timeout"
        res[name] = r if r in ("sat", "unsat") else "other"
        counts[name][res[name]] += 1
    definite = {v for v in res.values() if v in ("sat", "unsat")}
    if len(definite) > 1:
        dis += 1
        print("DISAGREEMENT", entry, res, p)
print(json.dumps({"queries": len(queries), "disagreements": dis, "answers": counts}))
if dis == 0:
    shutil.rmtree(tmp, ignore_errors=True)
sys.exit(1 if dis else 0)
