#!/bin/bash
# usage: run1.sh <pkgdir rel to repo> <entry> [gosym flags...]
set -e
. /verif/engine/env.sh
PKG=$1; ENTRY=$2; shift 2
OV=$(mktemp /tmp/ov.XXXXXX.json)
python3 - "$PKG" > $OV <<'PY'
import sys, os, json, glob
pkg=sys.argv[1]
rep={}
for f in glob.glob('/verif/harness/**/zz_verif_*.go', recursive=True):
    rel=os.path.relpath(f,'/verif/harness')
    rep['/repo/'+rel]=f
for f in glob.glob('/verif/rt/*.go'):
    rep['/repo/internal/verifrt/'+os.path.basename(f)]=f
print(json.dumps({"Replace":rep}))
PY
/verif/bin/gosym -repo /repo -pkg ./$PKG -overlay $OV -entry $ENTRY "$@"
rm -f $OV
