//go:build verif

package verifrt

import (
	"runtime"
	"time"
)

func nativeYield() {
	for i := 0; i < 50; i++ {
		runtime.Gosched()
	}
	time.Sleep(20 * time.Millisecond)
}

// FireTickers is an engine-only event; natively tickers are driven by the harness's own fake tickers.
func FireTickers(now time.Time) {}
