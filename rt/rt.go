//go:build verif

// Package verifrt is the harness runtime. Under the symbolic engine (gosym) every
// function here is intercepted; compiled natively the same package replays a
// recorded counterexample / witness (VERIF_REPLAY=<file>).
package verifrt

import (
	"encoding/json"
	"fmt"
	"math"
	"os"
	"strconv"
	"sync"
)

type nondetRec struct {
	Kind string   `json:"kind"`
	Val  string   `json:"val"`
	Vals []string `json:"vals"`
}

type replayFile struct {
	Nondets []nondetRec      `json:"nondets"`
	Params  map[string]int64 `json:"params"`
	Sched   []int            `json:"sched"`
}

var (
	mu       sync.Mutex
	loaded   bool
	rf       replayFile
	pos      int
	Failures []string
	Observed []string
	Covered  []string
	Diverged string
)

// AssertFailure is the panic value raised natively by a failing Assert.
type AssertFailure struct{ Label string }

// AssumeFailure is raised natively when an Assume does not hold (replay diverged).
type AssumeFailure struct{}

func load() {
	if loaded {
		return
	}
	loaded = true
	p := os.Getenv("VERIF_REPLAY")
	if p == "" {
		return
	}
	b, err := os.ReadFile(p)
	if err != nil {
		panic(err)
	}
	if err := json.Unmarshal(b, &rf); err != nil {
		panic(err)
	}
}

// Reset restarts the replay stream (native only).
func Reset() {
	mu.Lock()
	defer mu.Unlock()
	loaded = false
	pos = 0
	Failures, Observed, Covered, Diverged = nil, nil, nil, ""
}

func next(kind string) nondetRec {
	mu.Lock()
	defer mu.Unlock()
	load()
	for pos < len(rf.Nondets) {
		r := rf.Nondets[pos]
		pos++
		if r.Kind == "now" || (len(r.Kind) > 4 && r.Kind[:4] == "env:") {
			continue
		}
		if r.Kind != kind && Diverged == "" {
			Diverged = fmt.Sprintf("nondet #%d: recorded %s, requested %s", pos-1, r.Kind, kind)
		}
		return r
	}
	return nondetRec{Kind: kind, Val: "0"}
}

func u(kind string) uint64 {
	r := next(kind)
	v, _ := strconv.ParseUint(r.Val, 10, 64)
	return v
}

func NondetU8() uint8   { return uint8(u("u8")) }
func NondetU16() uint16 { return uint16(u("u16")) }
func NondetU32() uint32 { return uint32(u("u32")) }
func NondetU64() uint64 { return u("u64") }
func NondetI64() int64  { return int64(u("i64")) }
func NondetBool() bool  { return u("bool") != 0 }

func NondetF64() float64 {
	r := next("f64")
	if len(r.Val) > 2 && r.Val[:2] == "f:" {
		b, _ := strconv.ParseUint(r.Val[2:], 10, 64)
		return math.Float64frombits(b)
	}
	return 0
}

// NondetInt returns an arbitrary int in [lo, hi].
func NondetInt(lo, hi int) int {
	r := next("int")
	v, _ := strconv.ParseUint(r.Val, 10, 64)
	x := int(int64(v))
	if x < lo || x > hi {
		if Diverged == "" {
			Diverged = fmt.Sprintf("NondetInt(%d,%d) replay value %d out of range", lo, hi, x)
		}
		return lo
	}
	return x
}

// NondetBytes returns n arbitrary bytes in a fresh array.
func NondetBytes(n int) []byte {
	r := next("bytes")
	b := make([]byte, n)
	for i := 0; i < n && i < len(r.Vals); i++ {
		v, _ := strconv.ParseUint(r.Vals[i], 10, 8)
		b[i] = byte(v)
	}
	return b
}

// Param returns an integer parameter of the check configuration.
func Param(name string, def int) int {
	mu.Lock()
	defer mu.Unlock()
	load()
	if v, ok := rf.Params[name]; ok {
		return int(v)
	}
	return def
}

func Assume(c bool) {
	if !c {
		panic(AssumeFailure{})
	}
}

func Assert(c bool, label string) {
	if !c {
		mu.Lock()
		Failures = append(Failures, label)
		mu.Unlock()
		panic(AssertFailure{label})
	}
}

func Cover(label string)        { mu.Lock(); Covered = append(Covered, label); mu.Unlock() }
func DeclareCover(label string) {}

func Observe(label string, v uint64) {
	mu.Lock()
	Observed = append(Observed, fmt.Sprintf("%s=%d", label, v))
	mu.Unlock()
}

// KnownFinding tags the inputs of this run with a known-finding predicate.
func KnownFinding(id string, c bool) {}

// Yield lets the goroutines started so far run until they block (engine) /
// gives them a generous time slice (native).
func Yield() { nativeYield() }

// LiveThreads reports goroutines started by the code under test that have not finished (engine only; native: 0).
func LiveThreads() int { return 0 }

// Concretize asks the engine to case-split on every feasible value of x (natively: identity).
func Concretize(x int) int { return x }

// Symbolic reports whether the harness runs under the symbolic engine.
func Symbolic() bool { return false }

// AllocCount returns the number of heap objects allocated so far on this path (engine only).
func AllocCount() int { return 0 }

// UF64 is an uninterpreted function symbol (engine); natively it must not be reached.
func UF64(name string, x uint64) uint64 { panic("UF64 reached natively") }

// ErrorsIs is errors.Is without reflection (the engine redirects errors.Is here).
func ErrorsIs(err, target error) bool {
	if err == nil || target == nil {
		return err == target
	}
	return is(err, target)
}

func is(err, target error) bool {
	for {
		if err == target {
			return true
		}
		if x, ok := err.(interface{ Is(error) bool }); ok && x.Is(target) {
			return true
		}
		switch x := err.(type) {
		case interface{ Unwrap() error }:
			err = x.Unwrap()
			if err == nil {
				return false
			}
		case interface{ Unwrap() []error }:
			for _, e := range x.Unwrap() {
				if is(e, target) {
					return true
				}
			}
			return false
		default:
			return false
		}
	}
}
