#!/bin/bash
# usage: seed_eval.sh <worktree> <mN> <PROP> <demo pkg dir> <seed id>
# Confirms a seeded change in its scratch worktree (suite passes, demo fails with / passes without),
# stores it under /verif/seeded/<id>/, then runs the property's quick check against /repo with it applied.
WT=$1; M=$2; PROP=$3; PKG=$4; ID=$5
. /verif/engine/env.sh
OUT=/verif/seeded/$ID; mkdir -p $OUT
cd $WT && git checkout -q -- . && git clean -fdq -e out
P=$WT/out/$M/patch.diff
DEMO=$WT/out/$M/demo_test.go; [ -f $DEMO ] || DEMO=$WT/out/$M/demo_test.txt
git apply --check $P || { echo "$ID: patch does not apply"; exit 1; }
git apply $P
SUITE=$(go test -vet=off -count=1 $(go list ./... | grep -v /out/) 2>&1 | grep -v "^ok\|no test files" | head -5)
cp $DEMO $WT/$PKG/zz_seed_demo_test.go
DEMO_WITH=$(go test -vet=off -count=1 ./$PKG/ 2>&1 | grep -c "^--- FAIL\|^FAIL\|panic:")
git checkout -q -- .
DEMO_WITHOUT=$(go test -vet=off -count=1 ./$PKG/ 2>&1 | grep -c "^--- FAIL\|^FAIL\|panic:")
rm -f $WT/$PKG/zz_seed_demo_test.go
cp $P $OUT/patch.diff; cp $DEMO $OUT/demo_test.go; cp $WT/out/$M/notes.txt $OUT/notes.txt 2>/dev/null
# run the check against the scratch worktree with the change applied (VERIF_REPO), /repo stays untouched;
# the evidence file written by this run belongs to the changed tree: re-run the check on /repo before committing evidence
cd $WT && git apply $P || { echo "$ID: cannot re-apply"; exit 1; }
cd /verif && VERIF_REPO=$WT ./check $PROP > $OUT/check.log 2>&1; RC=$?
cd $WT && git checkout -q -- .
VIOL=$(grep -c "^VIOLATION" $OUT/check.log)
python3 - <<PY
import json
json.dump(dict(id="$ID", property="$PROP", suite_failures_with_change="""$SUITE""".strip(), demo_fails_with_change=$DEMO_WITH>0, demo_fails_without_change=$DEMO_WITHOUT>0,
  demo_package="$PKG", check_cmd="./check $PROP", check_exit=$RC, violations_reported=$VIOL, caught=($RC==1),
  needs=open("$OUT/notes.txt").read()[:1500] if __import__('os').path.exists("$OUT/notes.txt") else ""), open("$OUT/meta.json","w"), indent=1)
PY
echo "$ID prop=$PROP suite_ok=$([ -z "$SUITE" ] && echo yes || echo NO) demo_with=$DEMO_WITH demo_without=$DEMO_WITHOUT check_rc=$RC violations=$VIOL"
