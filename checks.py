# Registry of checks: property id -> jobs (harness entry points), bounds, assumptions.
CHECKS = {}

_c20_bases_q = [0, 1700000000000000000, 1700000000999800000, 2085978494900000000]
_c20_bases_t = _c20_bases_q + [1000000000, 946684800000000000, 1767225600000000000, 1999999999999400000, 1234567890123456789, 4294967296000000000 // 4, 1500000000500000000, 2000000000000000000]
CHECKS["C20"] = dict(
    jobs=[
        dict(pkg="internal/sequencenumber", entry="HC20UnwrapStep"),
        dict(pkg="internal/sequencenumber", entry="HC20UnwrapFirst"),
    ] + [dict(pkg="internal/ntp", entry="HC20NTP", params=dict(base=b, bits=18), thorough=dict(params=dict(bits=20), flags=["-qtimeout", "600000"])) for b in _c20_bases_q]
      + [dict(pkg="internal/ntp", entry="HC20NTP32", params=dict(base=b, bits=18), thorough=dict(params=dict(bits=20), flags=["-qtimeout", "600000"])) for b in _c20_bases_q[:3]]
      + [dict(pkg="internal/ntp", entry="HC20NTP", params=dict(base=b, bits=20), flags=["-qtimeout", "600000"], tiers=["thorough"]) for b in _c20_bases_t[4:]]
      + [dict(pkg="internal/ntp", entry="HC20NTP32", params=dict(base=b, bits=20), tiers=["thorough"]) for b in _c20_bases_t[4:]],
    bounds=dict(quick="unwrapper: one Unwrap step, all lastUnwrapped in [0,2^62) x all 2^16 inputs (loop-free, complete for the step) + first call. NTP: for 4 window bases (1970, 2023, a second boundary, just before the 2036 NTP era end) ALL pairs of instants within 2^18 ns (thorough 2^20): monotonicity, ToTime(ToNTP) within 1 us; ToNTP32/ToTime32 round trip with any reference in the same window",
                thorough="12 window bases"),
    outside=["lastUnwrapped >= 2^62", "instants outside the listed 2^20-ns windows (exhaustive per window, sampled across windows)", "dates after 2036"],
    assumptions=["go/ssa translation", "z3 bit-vectors; cvc5/z3 floating point", "float64->uint32 as go1.24/amd64"],
)

NOT_APPLICABLE = {
    "C10": "Data-race freedom is a property of pre-emptive schedules over plain memory accesses under the Go memory model. The engine executes goroutines cooperatively at synchronisation granularity (one harness thread plus the interceptor's own goroutines, switching only at blocking operations and explicit yields), so it can neither enumerate the interleavings nor derive happens-before; a lock-discipline (lockset) approximation was designed (DESIGN.md section 5, C10) but not built, and claiming race freedom from it would overstate what is decided. Deadlock on the explored sequential lifecycles is covered under C11; the atomic counter's arithmetic under C15.",
}

CHECKS["C03"] = dict(
    jobs=[
        dict(pkg="pkg/nack", entry="HC03LogHistory", params=dict(adds=3, jump=4, back=70, size=64),
             thorough=dict(params=dict(adds=4, jump=4, back=70), flags=["-qtimeout", "600000"], timeout=3000)),
        dict(pkg="pkg/nack", entry="HC03MissingScan", params=dict(maxd=8, size=64),
             thorough=dict(params=dict(maxd=10), flags=["-qtimeout", "600000"], timeout=3000)),
        dict(pkg="pkg/nack", entry="HC03LogHistory", params=dict(adds=3, jump=4, back=134, size=128), flags=["-qtimeout", "600000"], tiers=["thorough"]),
        dict(pkg="pkg/nack", entry="HC03LogHistory", params=dict(adds=3, jump=4, back=262, size=256), flags=["-qtimeout", "600000"], tiers=["thorough"]),
    ] + [dict(pkg="pkg/nack", entry="HC03Interceptor", params=dict(maxnacks=m, ticks=3), require_covers=["nack sent", "second loss"], no_native=True) for m in (0, 1, 2)],
    bounds=dict(quick="receiveLog size 64; histories from the constructor: 3 adds, forward jumps <=4, backward <=70 (older than window included), any base incl. wrap; state-level oracle (bitmap == reference set on the whole window, cursor = end of gap-free prefix). missingSeqNumbers from an ARBITRARY bitmap/end state with cursor distance <=8, skipLastN 0..5. Interceptor level: generator (size 64) with two NACK-negotiated streams and one not negotiated, a fixed small arrival pattern per stream with one case-split offset and one failing read, 3 ticks fired by the harness with a second loss arriving after the first tick, + one tick after unbinding a stream, per-packet limit 0/1/2: NACK contents per tick and stream == reference missing set, limit honoured, nothing for the non-negotiated or unbound stream.",
                thorough="4 adds; cursor distance <=10; histories also at window sizes 128 and 256 (3 adds, backward jumps beyond the window)"),
    outside=["window sizes 512..32768 (size 512 histories: solver unknown at 60 s)", "forward jumps >4 in histories (loop length only)", "cursor distance >10 in the scan lemma (solver does not finish the compaction argument beyond that: unknown at 60 s for 16)",
             "interceptor level beyond the fixed arrival pattern (arbitrary interleavings of ticks and arrivals)"],
    assumptions=["sync.RWMutex modelled as engine primitive", "decomposition: history harness checks the state, scan harness checks state->output from any state"],
)

CHECKS["C04"] = dict(
    jobs=[
        dict(pkg="internal/rtpbuffer", entry="HC04BufferHistory", params=dict(size=2, ops=3, fwd=3, back=6, rtx=0, csrc=0),
             thorough=dict(params=dict(size=4, ops=3), timeout=3400)),
        dict(pkg="internal/rtpbuffer", entry="HC04BufferHistory", params=dict(size=2, ops=3, fwd=3, back=6, rtx=1, csrc=1),
             thorough=dict(params=dict(size=4, ops=3), timeout=3400)),
        dict(pkg="internal/rtpbuffer", entry="HC04BufferHistory", params=dict(size=2, ops=2, fwd=3, back=6, rtx=1, csrc=0, pad=1), require_covers=["rtx form"]),
        dict(pkg="internal/rtpbuffer", entry="HC04BufferHistory", params=dict(size=2, ops=2, fwd=3, back=6, rtx=1, csrc=0, pad=2), require_covers=["rtx form"]),
        dict(pkg="pkg/nack", entry="HC04Responder", params=dict(size=8), require_covers=["retransmitted"], no_native=True),
        dict(pkg="pkg/nack", entry="HC04Responder", params=dict(size=1), no_native=True),
    ],
    bounds=dict(quick="PacketFactoryCopy+RTPBuffer size 2, 3 sends (distinct numbers, fwd<=3/back<=6 incl. older than window, any base incl. wrap), payload 0..3 symbolic bytes, symbolic header fields, RTX off / RTX on with CSRC; RTX with header PaddingSize 1..4 and with legacy in-payload padding (2 sends); caller scribbles its buffers after each send; one lookup with arbitrary number. Interceptor level: responder (ring size 8 / 1) with 3 sends at 2 bases (wrap), caller scribbling, a marshalled NACK with first id base-1..base+3 and every 3-bit mask for the stream or another SSRC through the RTCP reader (real rtcp unmarshal), resend goroutine run to completion, then Unbind and the same NACK again",
                thorough="size 4, 3 sends (4 sends did not finish within 50 minutes)"),
    outside=["buffer sizes >4", "duplicate sequence numbers", "padding longer than 1 byte in the legacy in-payload form", "resend goroutines interleaved with new sends and pool recycling (the resend goroutine runs to completion while the caller waits)"],
    assumptions=["sync.Pool modelled as LIFO free list", "rtp sequencer start nondeterministic"],
)

CHECKS["C18"] = dict(
    jobs=[
        dict(pkg="pkg/jitterbuffer", entry="HC18Ops", params=dict(min=2, ops=4, span=3), flags=["-unwindviol", "-unwind", "40"],
             thorough=dict(params=dict(ops=5, span=4), timeout=3400)),
        dict(pkg="pkg/jitterbuffer", entry="HC18Ops", params=dict(min=1, ops=4, span=3), flags=["-unwindviol", "-unwind", "40"],
             thorough=dict(params=dict(ops=5, span=4), timeout=3400)),
        dict(pkg="pkg/jitterbuffer", entry="HC18Interceptor", require_covers=["playout started"]),
    ],
    bounds=dict(quick="JitterBuffer from New(min start 1|2), 4 operations chosen symbolically from {Push, Pop, PopAtSequence, PeekAtSequence, Clear}, sequence numbers base+0..3 for any 16-bit base (wrap included), distinct packet objects; list loops bounded by 40 iterations (excess = loop-forever violation)",
                thorough="5 operations, span 4 (6 operations: not finished in 20 minutes)"),
    outside=["more than 6 operations", "PopAtTimestamp/Peek(bool)/SetPlayoutHead", "event listeners", "the receiver interceptor beyond two packets (start count 2, packets of 13..16 bytes read into a 40-byte buffer with stale bytes)"],
    assumptions=["sync.Mutex engine primitive", "pointer identity is concrete in the engine"],
)

CHECKS["C15"] = dict(
    jobs=[dict(pkg="pkg/twcc", entry="HC15Step", params=dict(shape=s)) for s in (0, 1, 2, 3)] + [
        dict(pkg="pkg/twcc", entry="HC15Streams", params=dict(writes=4), thorough=dict(params=dict(writes=6))),
    ],
    bounds=dict(quick="one write from ANY counter value (2^32) with any id 1..14, 4 header shapes (none / one-byte other ext / same id present / two-byte profile), 3 symbolic payload bytes; induction gives any number of packets (>2^16 included). Streams: 2 negotiated (ids 3,7) + 1 not negotiated, 4 writes in any order (sequential), any start counter",
                thorough="6 writes"),
    outside=["truly concurrent writers (atomicity of the counter is the C10 discipline check)", "header shapes for which SetExtension legitimately fails (id 15 one-byte, RFC3550 profile)"],
    assumptions=["sync/atomic.AddUint32 is one atomic step"],
)

_c07_windows = [(90000, 0), (90000, 999999000), (90000, 47721858000000), (48000, 3600000000000), (8000, 536870911000000)]
CHECKS["C07"] = dict(
    jobs=[dict(pkg="pkg/report", entry="HC07Step", require_covers=["first packet ever", "first packet of a frame", "out of order"]), dict(pkg="pkg/report", entry="HC07Interceptor", require_covers=["tick reported"], no_native=True)] +
         [dict(pkg="pkg/report", entry="HC07Report", params=dict(rate=r, elbase=b, elbits=20)) for (r, b) in _c07_windows],
    bounds=dict(quick="processRTP: one step from ANY stream state (counts, reference, sequence) with any header, payload length 0..1460, both use-latest-packet settings (inductive: any history). Report formula: elapsed time = window base + [0,2^20) ns for 5 (clock rate, base) windows incl. the 2^32-tick wrap at 90 kHz, compared with the integer reference floor(elapsed*rate/1e9) within one tick. Interceptor level: two local streams (90 kHz / 48 kHz), two rounds of two writes on symbolically chosen streams with symbolic payload lengths and timestamps, a tick after each round: one SR per stream per tick with that stream's own packet/octet counts and the report instant as NTP time",
                thorough="same"),
    outside=["elapsed times outside the listed windows (float pipeline is decided per 2^20-ns window by cvc5)", "sender interceptor beyond two streams x two rounds of two writes and two ticks (harness-controlled clock; RTP-time extrapolation is checked on the stream object only)", "report before any packet (zero reference time)"],
    assumptions=["float64->uint32 conversion modelled as go1.24/amd64 executes it (cvttsd2si, low 32 bits)", "time.Time modelled as 96-bit nanosecond count"],
)

CHECKS["C06"] = dict(
    jobs=[dict(pkg="pkg/report", entry="HC06Jitter", params=dict(lastbase=lb, dbase=db, tsbits=12, elbits=20, jbits=20), optional_covers=["timestamp wrapped between packets"])
          for (lb, db) in ((4294967000, 0), (0, 0), (2147483000, 0), (100000, 4294960000), (5000, 2147481000))] + [
        dict(pkg="pkg/report", entry="HC06Loss", params=dict(packets=3, fwd=3, back=3), thorough=dict(params=dict(packets=3, fwd=4, back=4), flags=["-qtimeout", "300000"], timeout=3400)),
        dict(pkg="pkg/report", entry="HC06LossStep", params=dict(maxjump=6), require_covers=["jump across the sequence wrap", "cumulative lost saturates"]),
        dict(pkg="pkg/report", entry="HC06Interceptor", require_covers=["lossy stream reported", "sender report behind one for an unbound stream"], no_native=True),
        dict(pkg="pkg/report", entry="HC06SR", params=dict(elbase=0)),
        dict(pkg="pkg/report", entry="HC06SR", params=dict(elbase=65535999000000)),
    ],
    bounds=dict(quick="jitter: one update from an arbitrary state (jitter any multiple of 1/16 < 65536, elapsed < 2^20 ns) for 5 windows of (last timestamp, timestamp step) of 2^12 x 2^12 values incl. both directions of the 2^32 wrap and the 2^31 half-range; loss step: from an ARBITRARY 64-packet bitmap right after a report, one forward jump of 1..6 from any sequence number (wrap included); loss accounting: 3 packets (jumps +-3, any base incl. sequence wrap), report after a symbolic prefix and at the end, bitmap of 64 packets (size=1 word, same code as 128 words); LSR/DLSR: two SRs, elapsed window [0,2^20) ns at base 0 and at the 2^32-unit wrap of DLSR",
                thorough="3 packets, jumps +-4 (4 packets: solver unknown at 60 s)"),
    outside=["production history size 8192 packets (struct built with 1 word)", "more than 4 packets per history / jumps >4", "packets arriving for an interval that was already reported", "receiver interceptor beyond: two remote streams (one with a case-split gap of 0..2 lost), a sender report for one of them through the RTCP reader, one tick (production bitmap size 8192)"],
    assumptions=["float64->uintN conversions as go1.24/amd64", "FP queries decided by cvc5/z3 portfolio, one-shot"],
)

CHECKS["C08"] = dict(
    jobs=[dict(pkg="pkg/rfc8888", entry="HC08Offset", params=dict(elbase=b), require_covers=["offset"]) for b in (0, 999000000, 7999000000, 8000500000, 64500000000, 3600000000000)] + [
        dict(pkg="pkg/rfc8888", entry="HC08Offset", params=dict(after=1)),
        dict(pkg="pkg/rfc8888", entry="HC08History", params=dict(packets=2, span=2), require_covers=["received entry", "lost entry"], thorough=dict(params=dict(packets=3, span=2), timeout=3400)),
        dict(pkg="pkg/rfc8888", entry="HC08Interceptor", require_covers=["report written"], no_native=True),
        dict(pkg="pkg/rfc8888", entry="HC08Budget", params=dict(streams=2, per=3)),
        dict(pkg="pkg/rfc8888", entry="HC08Budget", params=dict(streams=3, per=2)),
        dict(pkg="pkg/rfc8888", entry="HC08Budget", params=dict(streams=1, per=4)),
    ],
    bounds=dict(quick="offset kernel: (report - arrival) = base + [0,2^20) ns for 6 bases (0, ~1 s, just below/above the 8 s saturation, 64.5 s, 1 h) + arrival after report; histories: one SSRC, 2 packets with offsets 0..2 from 3 bases (plain, 2^16 wrap, 2^15), symbolic arrival times/ECN, report after a symbolic prefix and at the end; budget: 1-3 streams x 2-4 packets (gapped), every maxSize from the header minimum up; sender interceptor: two remote streams, reads with a case-split offset, a duplicate and a failing read under a concrete harness clock, one tick: one report with one block per stream, ranges/received flags/offsets as read",
                thorough="3 packets per history"),
    outside=["more than 3 packets per history", "several SSRCs in the symbolic history harness (two streams only in the interceptor-level run with a concrete clock)", "a stream whose first sequence number is below the reordering distance (unwrapper floor-at-zero corner)", "report-arrival outside the listed windows"],
    assumptions=["map iteration order fixed (insertion order)", "float->uint16 conversion as go1.24/amd64"],
)

CHECKS["C09"] = dict(
    jobs=[
        dict(pkg="internal/cc", entry="HC09Adapter", params=dict(n=3, kind=0), thorough=dict(params=dict(n=4), timeout=3000)),
        dict(pkg="internal/cc", entry="HC09Adapter", params=dict(n=3, kind=1), thorough=dict(params=dict(n=4), timeout=3000)),
        dict(pkg="internal/cc", entry="HC09RFC8888", params=dict(nbases=1), require_covers=["decoded"], thorough=dict(params=dict(nbases=2), timeout=3000)),
        dict(pkg="internal/verifchain", entry="HC09Compose", require_covers=["composed"]),
        dict(pkg="pkg/rtpfb", entry="HC09ConvertTWCC", require_covers=["converted", "received without delta"]),
        dict(pkg="pkg/rtpfb", entry="HC09Rtpfb", require_covers=["two feedbacks"]),
    ] + [dict(pkg="pkg/rtpfb", entry="HC09CCFB", params=dict(pat=k), flags=["-stopviol", "1"], require_covers=["two reports", "received block matched"], tiers=t) for (k, t) in ((0, ["quick", "thorough"]), (1, ["quick", "thorough"]), (2, ["thorough"]), (3, ["thorough"]))],
    bounds=dict(quick="gcc FeedbackAdapter: 3 covered sequence numbers + 1 beyond the declared range, every subset of them known to the history, base 10 or 65534 (wrap), one status-vector chunk (2-bit symbols, padded to 7) with every symbol combination / one run-length chunk of each symbol; symbolic deltas (small 0..255, large int16), sizes, departure times, reference time. RFC 8888 path: two streams x 3 sent packets (every membership subset of the first stream), one report block per stream starting at 65535 (wrap), symbolic received flags, ECN, 13-bit arrival offsets and report timestamp: each ack == (recorded size/departure, encoded arrival = reference - offset/1024 s, ECN), nothing else acknowledged. Composition: feedback built by the TWCC recorder of this library for 4 sent packets (every arrival subset, arrival steps from a table, 2 bases incl. wrap) decoded by the gcc adapter, and two successive recorder feedbacks over 5 sent packets through rtpfb convertTWCC + history: each sent packet reported at most once, in send order, with the recorded arrival within 125 us; rtpfb convertTWCC on one 2-bit status-vector chunk with every symbol combination (incl. received-without-delta) for 1..5 statuses: status, arrival and delta consumption per number. rtpfb RFC 8888 path through the public Bind* API: 5 packets written on two non-TWCC streams (2 interleavings; one stream wraps), a marshalled CCFeedbackReport with 1-2 report blocks (streams in either order or an SSRC never sent; begin at first-1, first or first+2; 2 metric blocks each; symbolic received bits, ECN, 13-bit offsets) read through the bound RTCP reader, then a second report acknowledging everything: every PacketReport in the attributes names a written packet with its size/departure, in send order, at most once over both reports, and carries exactly the received bit, ECN and report time - offset/1024 s of the block for its (SSRC, sequence number); packets the feedback does not cover are never reported as arrived; a newly acknowledged packet is in the report",
                thorough="4 covered numbers; rtpfb RFC 8888 path with 4 interleavings (incl. all packets on one stream)"),
    outside=["more than one chunk per feedback", "LRU eviction at size 250 (membership is chosen directly)", "rtpfb RFC 8888 reports with several blocks for one SSRC, more than 2 metric blocks per block in the first report, report timestamps other than the read time", "composition with the RFC 8888 generator"],
    assumptions=["container/list executed from SSA", "time.Time 96-bit model"],
)

CHECKS["C02"] = dict(
    jobs=[
        dict(pkg="pkg/rtpfb", entry="HC02ConvertTWCC", params=dict(kind=0)),
        dict(pkg="pkg/rtpfb", entry="HC02ConvertTWCC", params=dict(kind=1)),
        dict(pkg="internal/cc", entry="HC02AdapterTWCC", params=dict(kind=0)),
        dict(pkg="internal/cc", entry="HC02AdapterTWCC", params=dict(kind=1, pad=0)),
        dict(pkg="internal/cc", entry="HC02AdapterTWCC", params=dict(kind=1, pad=1)),
    ] + [dict(pkg="internal/verifchain", entry="HC02RawRTP", params=dict(kind=k, len=L), flags=["-unwind", "1200"], require_covers=["untrusted packet handled"])
         for (k, L) in ((3, 16), (5, 16), (6, 16), (7, 16), (8, 16), (3, 20), (5, 20), (8, 20))] + [
        dict(pkg="pkg/gcc", entry="HC02LeakyBucketSize", params=dict(concretenow=1, maxlen=1500), require_covers=["accepted"]),
        dict(pkg="pkg/gcc", entry="HC02LeakyBucketSize", params=dict(concretenow=1, maxlen=4000), require_covers=["accepted"]),
        dict(pkg="pkg/rtpfb", entry="HC02RawTWCC", flags=["-unwind", "9000"], require_covers=["parsed", "rejected by the parser"]),
        dict(pkg="internal/cc", entry="HC02RawTWCCAdapter", flags=["-unwind", "9000"], require_covers=["parsed", "rejected by the parser"]),
    ] + [dict(pkg="internal/verifchain", entry="HC02ExtRTP", params=dict(kind=k), flags=["-unwind", "1200"], require_covers=["extension packet handled"]) for k in (3, 6, 7, 8)]
      + [dict(pkg="internal/verifchain", entry="HC02RawRTCP", params=dict(kind=k, len=12, concretenow=1), flags=["-unwind", "1200"], require_covers=["untrusted packet handled", "accepted"], optional_covers=["rejected"],
              thorough=dict(params=dict(kind=k, len=(16 if k in (11, 12, 17) else 12), concretenow=1), timeout=3000)) for k in (2, 5, 8, 11, 12, 17)]
      + [dict(pkg="internal/verifchain", entry="HC02RawRTCP", params=dict(kind=12, len=12, tlo=208, thi=255, concretenow=1), flags=["-unwind", "1200"], require_covers=["untrusted packet handled"])],
    bounds=dict(quick="Raw RTCP: ANY 12-byte string (every byte symbolic; bytes that can be a packet-type field are kept off 207/XR) with any reported length n <= 12 and stale bytes beyond it, through the BindRTCPReader path of the NACK responder, report receiver, packetdump receiver, rtpfb, stats and the cc interceptor with its default gcc estimator - the real rtcp.Unmarshal decides what it is (empty RR, PLI, BYE, SDES, short/garbled headers, compound of 8+4 bytes...): no panic or index error, result is n or an error, a well-formed PLI afterwards is handled. structurally inconsistent but parseable TWCC feedback (status count 0..4, run length 0..12 beyond the count, 7-symbol vector chunks with received padding, exactly the deltas rtcp.Unmarshal would produce) through rtpfb.convertTWCC and the gcc FeedbackAdapter; every index/nil/slice operation is an implicit assertion; a well-formed probe feedback afterwards. Raw RTP: ANY byte string of 16 bytes (20 for the NACK generator and report receiver) (all bytes symbolic except that the sequence-number field is within 8 of the probe packet's) with any reported length n <= that size (stale bytes beyond n symbolic too) through the BindRemoteStream reader of the NACK generator, report receiver, TWCC sender, RFC 8888 sender and packetdump receiver (real rtp.Header.Unmarshal from SSA), then a well-formed packet; a packet shorter than the header its CSRC count announces must be rejected whatever stale bytes follow. Extension block: a 16..22-byte packet with a one-byte- or two-byte-profile extension block whose single word (ids, lengths, data) is symbolic, possibly truncated, through the NACK generator, TWCC sender, RFC 8888 sender and packetdump readers. Raw RTCP: ANY 24-byte transport-wide-CC feedback packet (symbolic base, status count 0..8, reference time, one arbitrary 16-bit status chunk of any kind, two arbitrary trailing bytes; run lengths <= 16) through the real rtcp.Unmarshal and then rtpfb processFeedback / the gcc adapter. Outgoing size: ANY payload length 0..1500 / 0..4000 through the gcc LeakyBucketPacer (Write on the caller, release by the pacer goroutine on a harness-fired tick), a second packet afterwards, Close",
                thorough="same; raw RTCP of 16 bytes through rtpfb, stats and cc"),
    outside=["raw RTCP byte strings longer than 12 (thorough: 16) bytes other than one-chunk 24-byte TWCC packets; any RTCP buffer containing an extended report (XR, type 207: pion/rtcp decodes it through package reflect, which the engine does not model)", "RTP buffers longer than 16-20 bytes (28 bytes did not finish in 20 min: CSRC/extension parsing paths)", "outgoing packet sizes above 4000 and through interceptors other than the leaky bucket pacer", "jitter buffer, flexfec and pacers on the RTCP side"],
    assumptions=["the unmarshal post-condition P_U used to build the structured feedback (DESIGN.md C02)"],
)

CHECKS["C14"] = dict(
    jobs=[
        dict(pkg="pkg/flexfec", entry="HC14Masks"),
        dict(pkg="pkg/flexfec", entry="HC14Header", require_covers=["three mask words"]),
        dict(pkg="pkg/flexfec", entry="HC14Bytes", params=dict(media=3, fec=2, csrc=0), thorough=dict(params=dict(media=4, fec=2))),
        dict(pkg="pkg/flexfec", entry="HC14Bytes", params=dict(media=3, fec=1, csrc=1), thorough=dict(params=dict(media=4, fec=3))),
    ],
    bounds=dict(quick="masks: media count in {1,2,15,16,46,47,109,110} x FEC count in {1,2,3,7}, with and without a preceding different configuration on the same coverage object, ANY (repair index, media index): combined <=> index mod k, named (independent wire reader of the 15/31/63-bit fields) <=> combined. wire header: (media, FEC) in {(15,1),(16,1),(46,2),(47,1),(60,46),(60,20),(109,108),(109,3)} with 1-byte payloads and a symbolic base: header size, k-bits and masks parsed from the repair packet bytes for repair index 0, 1 and k-1, repair byte == XOR of the protected bytes; bytes: 3 media packets x 1-2 FEC, two successive batches through one encoder, symbolic base sequence (wrap included), timestamps, marker, PT, payload length 0..2 with symbolic bytes, optional CSRC on one packet; XOR recovery of an arbitrary protected packet in the harness",
                thorough="4 media packets, up to 3 FEC"),
    outside=["other (media, FEC) counts than the listed grid", "payloads longer than 2 bytes / header extensions / padding at byte level", "the encoder interceptor wiring"],
    assumptions=["sync.Pool LIFO model for the scratch buffer"],
)

CHECKS["C19"] = dict(
    jobs=[dict(pkg="pkg/stats", entry="HC19Recount", params=dict(events=2), require_covers=["incoming rtp counted", "XR first in a compound packet", "report block for the stream after another block", "outgoing feedback for the stream after one for another stream"])]
       + [dict(pkg="pkg/stats", entry="HC19RTT", params=dict(dbase=db, dbits=bits, srs=3), require_covers=["matching sender report", "no matching sender report"]) for (db, bits) in ((1, 10), (65536, 16), (65536000, 16), (4294900000, 16))]
       + [dict(pkg="pkg/stats", entry="HC19RTT", params=dict(dbase=65536, dbits=12, srs=7), require_covers=["matching sender report"])]
       + [dict(pkg="pkg/stats", entry="HC19DLRR", params=dict(dbase=65536, dbits=10, rrs=2), require_covers=["matching reference time", "sub-report for another stream"],
               thorough=dict(params=dict(dbase=65536, dbits=12, rrs=3), timeout=3000))]
       + [dict(pkg="pkg/stats", entry="HC19Interceptor", require_covers=["queried"])],
    bounds=dict(quick="one recorder (SSRC 100), 2 events chosen from {incoming RTP, outgoing RTP, incoming RTCP compound of 2 packets out of NACK/PLI/FIR/XR, outgoing RTCP compound of 2 packets out of NACK/PLI/FIR}, each addressed to the stream or to another SSRC (symbolic), sequence numbers base+-3 for any base incl. wrap, payload length 0..1460; counters compared with a recount. RTT from LSR/DLSR: 3 remembered outgoing sender reports (symbolic NTP fractions), an incoming receiver report matching the k-th of them or none, DLSR in 4 windows (2^10 values from 1, 2^16 values from 1 s, 1000 s and the top of the 32-bit range), arrival within 2^30 ns: RTT == arrival - DLSR - send time of the matching report, one measurement; nothing on a mismatch. RTT from XR DLRR: 2 remembered outgoing receiver reference time reports, an incoming DLRR block with two sub-reports each addressed to this stream or another and matching the k-th reference or none, DLRR in a 2^10 window from 1 s: one measurement per matching sub-report for this SSRC with RTT == arrival - DLRR - reference send time, none for other SSRCs. Interceptor level: one local and two remote streams behind one stats interceptor, RTP both ways with symbolic lengths (a foreign SSRC on the local writer, stale bytes beyond the read length), one outgoing and one marshalled incoming RTCP compound packet: every queried figure per SSRC equals the recount",
                thorough="same (3 events did not finish within 50 minutes)"),
    outside=["remote jitter and packets-received figures", "DLRR values outside the listed window", "packets that pass before a recorder has become active (it starts on its own goroutine)", "a stream whose first sequence number is below the reordering distance (unwrapper corner)", "FIR whose media SSRC field is 0 (RFC 5104 form)"],
    assumptions=["pion/logging no-op"],
)

CHECKS["C05"] = dict(
    jobs=[
        dict(pkg="pkg/twcc", entry="HC05Chunks", params=dict(symbols=16), require_covers=["chunk flushed"], thorough=dict(params=dict(symbols=24))),
        dict(pkg="pkg/twcc", entry="HC05Packer", params=dict(steps=3, wire=1, dchoices=6), require_covers=["packet built", "delta too large: refused"], thorough=dict(params=dict(steps=4, dchoices=6), timeout=3400)),
        dict(pkg="pkg/twcc", entry="HC05Interceptor", params=dict(concretenow=1), require_covers=["feedback written"], no_native=True),
        dict(pkg="pkg/twcc", entry="HC05Recorder", params=dict(records=3, span=2, steptab=1), require_covers=["feedback built", "build split into several packets", "aged out of the history", "duplicate ignored"]),
        dict(pkg="pkg/twcc", entry="HC05Recorder", params=dict(records=3, span=3), require_covers=["feedback built", "duplicate ignored"], thorough=dict(params=dict(records=4, span=2), flags=["-maxpaths", "3000000"], timeout=3400)),
    ],
    bounds=dict(quick="chunk packer: ANY sequence of 16 status symbols (0/1/2), emitted chunks decode to the driven sequence and are well formed; feedback packer: 3 received packets with gaps of 0 or 2 lost in between, arrival steps case-split over a table of boundary values (0, 125 us rounding, 255.5-unit small/large border, 64 ms, negative, beyond the int16 limit: must be refused; thorough adds 124 us, the int16 limits both ways, 12 s), 3 reference times, symbolic base sequence number (wrap) -> independent decode within 125 us, one delta per received status, real rtcp Marshal/Unmarshal round trip and declared length; recorder: 3 records (offsets 0..3 from 2 bases incl. wrap, duplicates, reordering, 4 arrival steps up to 70 ms) with a build after a case-split prefix and at the end; the same with 9 s gaps between arrivals (offsets 0..2): a build splits into several packets with consecutive counters and non-overlapping ranges, arrivals older than 500 ms that were already reported may be forgotten and re-recorded; sender interceptor: 5 reads on a TWCC-negotiated stream, each with the extension / without it / failing (case split, 2 bases incl. wrap), harness-fired tick: one feedback covering base..highest with exactly the read packets marked received; a second tick writes nothing",
                thorough="24 symbols; 4 packer steps; 4 records"),
    outside=["arrival-time values other than the tabled boundary values (the 64-bit divide/multiply chain by 250 and 64000 does not finish symbolically: unknown at 60 s in z3 and cvc5; cvc5 --solve-bv-as-int=sum decides single steps only)", "gaps longer than 2 / sequence jumps beyond 4", "the 500 ms culling rule beyond the tabled 9 s gaps (the oracle over-approximates which arrivals may have been forgotten: reported earlier and followed, at least 500 ms later, by a higher number)", "first sequence number below the reordering distance (unwrapper corner)", "sender interceptor beyond 5 reads and two ticks (deterministic clock)"],
    assumptions=["case splits over the tables are exhaustive per table; each path's arithmetic is concrete, the solver decides the sequence-number arithmetic (symbolic base) and all slice/index checks"],
)

CHECKS["C16"] = dict(
    jobs=[
        dict(pkg="pkg/gcc", entry="HC16Publish", require_covers=["callback fired", "loss controller has adapted", "changed without callback"]),
        dict(pkg="pkg/gcc", entry="HC16RateStep", require_covers=["step", "stats written"], tiers=["thorough"], thorough=dict(timeout=3000)),
        dict(pkg="pkg/gcc", entry="HC16Feedback", params=dict(concretenow=1, packets=3), require_covers=["feedback processed"], optional_covers=["callback fired"], thorough=dict(params=dict(concretenow=1, packets=12))),
        dict(pkg="pkg/gcc", entry="HC16Lifecycle", params=dict(concretenow=1, feedbacks=2), require_covers=["feedback fed", "closed"], thorough=dict(params=dict(concretenow=1, feedbacks=3))),
    ],
    level_note="PARTIAL CLAIM: only the integer envelope of the estimator (clamps, min, publication to getter/pacer/callback) from arbitrary controller states; nothing about estimator quality, the Kalman/threshold/EMA numerics, liveness of the channel pipeline under feedback that carries acknowledgements. Trusted: go/ssa, gosym, z3/cvc5.",
    bounds=dict(quick="one SendSideBWE.onDelayUpdate from an arbitrary state: any 0 < min <= initial <= max < 2^30, delay target anywhere in [min,max], loss controller bitrate at its initial value or anywhere in its private range; callback goroutine run to completion. Lifecycle: the real estimator (goroutine pipeline; NoOp or leaky bucket pacer) fed 2 feedback packets that acknowledge nothing (empty RFC 8888 report with any timestamp, TWCC feedback with status count 0, a PLI): accepted without blocking, target within bounds, Close returns, WriteRTCP after Close fails with ErrSendSideBWEClosed. End to end with concrete data: 3 packets with the TWCC extension written through AddStream (deterministic clock), one TWCC feedback acknowledging all of them with arrival spacing 250 us / 5 ms / 60 ms: WriteRTCP returns, the goroutine pipeline settles, the target is positive and within bounds, a fired callback carries the getter's value (concrete floats: this job decides no numeric claim)",
                thorough="plus one rateController.onDelayStats step from an arbitrary state (any target in bounds, received rate < 2^40, RTT, elapsed time, arbitrary float64 moving averages incl. NaN/Inf, any usage/state); math.Pow is an uninterpreted function"),
    outside=["numerical behaviour of the estimator", "WriteRTCP pipeline with feedback that acknowledges packets (float pipeline), both pacers' timing", "loss controller update arithmetic (only its private clamp invariant is assumed)"],
    assumptions=["time.Now nondeterministic non-decreasing", "math.Pow/Exp uninterpreted", "float->int conversion as go1.24/amd64"],
)

CHECKS["C01"] = dict(
    jobs=[dict(pkg="internal/verifchain", entry="HC01Chain", params=dict(members=8, nested=0), flags=["-unwind", "1200"],
               require_covers=["write error injected", "read error injected", "packet read", "close error"]),
          dict(pkg="internal/verifchain", entry="HC01Chain", params=dict(members=3, nested=1), flags=["-unwind", "1200"],
               require_covers=["close error", "nested close error"])]
         + [dict(pkg="internal/verifchain", entry="HC01Chain", params=dict(members=8, nested=0, first=k, swap=sw), flags=["-unwind", "1200"], require_covers=["packet read"])
            for k in (8, 10, 11, 12, 13, 14) for sw in (0, 1)],
    bounds=dict(quick="[plus: each of packetdump receiver, intervalpli, rtpfb, stats, flexfec (FEC not negotiated), packetdump sender paired in both orders with each of the 8 kinds below] every ordered pair (64) of {NoOp, TWCC header extension, NACK responder, NACK generator, report sender, report receiver, TWCC sender, RFC 8888 sender} built by their factories with default options, behind counting proxies; 2 outgoing packets (symbolic timestamp/marker/payload of 0..3 symbolic bytes, sequence numbers 65535 and 0) with a downstream write error injected at either or no position; one incoming packet of 12..16 bytes (fixed first byte 0x80, 15 symbolic bytes) or a failing read; Unbind of both streams, Close with symbolic Close errors per member; for pairs of the first 3 kinds additionally with the second member wrapped in a nested chain together with a third failing member; loop goroutines run in the cooperative thread model (no ticker fires)",
                thorough="same"),
    outside=["chains longer than 2", "cc/gcc interceptor and the buffering ones (jitter buffer, pacers); flexfec with FEC negotiated", "ticker-driven feedback interleaved with traffic", "RTCP traffic through the chain", "non-default options", "header shapes with CSRC/extensions on the outgoing side"],
    assumptions=["cooperative threads: goroutines run only when the caller blocks or yields", "time.NewTicker channels never fire unless the harness says so", "pion/logging is a no-op", "rand sources nondeterministic"],
)

CHECKS["C17"] = dict(
    jobs=[dict(pkg="pkg/pacing", entry="HC17Pacing", params=dict(packets=2), require_covers=["all delivered"], no_native=True),
          dict(pkg="pkg/gcc", entry="HC02LeakyBucketSize", params=dict(concretenow=1, maxlen=1500), require_covers=["accepted"])],
    bounds=dict(quick="pacing interceptor with a contract-stub limiter (Budget answers plenty/nothing nondeterministically, AllowN recorded), 2 streams, 2 packets on symbolically chosen streams with payload 0..2 symbolic bytes, ticker fired (or not) after each write and 3 more times at the end, every select/scheduling choice of the loop goroutine explored; the caller overwrites header and payload after each Write; Close",
                thorough="same (3 packets did not finish within 50 minutes)"),
    outside=["golang.org/x/time/rate arithmetic (the limiter is a contract stub: released bits <= burst + rate*elapsed follows for any limiter honouring Budget/AllowN)", "gcc LeakyBucketPacer beyond one packet of any size 0..1500 followed by a second one (single delivery, intact, caller scribbling, Close); NoOpPacer", "queue overflow at 10^6", "real-time behaviour", "concurrent writers (writes are issued sequentially by the harness thread)"],
    assumptions=["cooperative threads; ticker fires only where the harness fires it"],
)

CHECKS["C13"] = dict(
    jobs=[
        dict(pkg="pkg/flexfec", entry="HC13FlexFEC", require_covers=["repair emitted"]),
        dict(pkg="internal/rtpbuffer", entry="HC04BufferHistory", params=dict(size=2, ops=2, fwd=3, back=3, rtx=1, csrc=1)),
        dict(pkg="pkg/pacing", entry="HC17Pacing", params=dict(packets=2), no_native=True),
        dict(pkg="pkg/gcc", entry="HC02LeakyBucketSize", params=dict(concretenow=1, maxlen=1500), require_covers=["accepted"]),
    ],
    bounds=dict(quick="self-composition for the FlexFEC encoder interceptor (2 media packets + 1 repair; fresh buffers vs one reused payload array/header object overwritten with symbolic bytes right after each Write; everything emitted compared for all scribble values); NACK responder packet factory in copy mode (caller overwrites payload, header fields and CSRC array after each send, lookup afterwards; RTX form); pacing interceptor (caller overwrites after each accepted Write, release later)",
                thorough="same"),
    outside=["packetdump, stats, jitter buffer interceptor, twcc sender; gcc LeakyBucketPacer beyond two packets", "race detection between the interceptor's goroutines and the scribbling caller (see C10)", "histories longer than 2-3 packets"],
    assumptions=["sync.Pool LIFO", "cooperative threads"],
)

CHECKS["C11"] = dict(
    jobs=[dict(pkg="internal/verifchain", entry="HC11Lifecycle", params=dict(kind=k), flags=["-unwind", "1200", "-preempt", "1"], require_covers=["traffic after close returned", "rebind"]) for k in range(8)]
       + [dict(pkg="internal/verifchain", entry="HC11Lifecycle", params=dict(kind=k, concretenow=1), flags=["-unwind", "1200", "-preempt", "1"], require_covers=["traffic after close returned", "rebind"]) for k in (8, 11, 12, 13, 14, 15, 16, 17)]
       + [dict(pkg="internal/verifchain", entry="HC11ReadThenClose", params=dict(kind=k), flags=["-unwind", "1200"], require_covers=["closed", "writer bound"], no_native=True) for k in (3, 5, 6, 7, 8, 12, 15)]
       + [dict(pkg="internal/verifchain", entry="HC11Unbind", params=dict(kind=k, concretenow=1), flags=["-unwind", "1200"], require_covers=["feedback about the stream before unbind"] + (["report after rebind"] if k in (4, 5, 7) else []), no_native=True) for k in (3, 4, 5, 7, 10)]
       + [dict(pkg="internal/verifchain", entry="HC11BindOrder", params=dict(kind=k, streams=3), flags=["-unwind", "1200"]) for k in (3, 4, 5, 6, 7, 10, 11, 12)]
       + [dict(pkg="internal/verifchain", entry="HC11BindOrder", params=dict(kind=k, streams=3, concretenow=1), flags=["-unwind", "1200"]) for k in (8, 13, 14, 15, 16, 17)]
       + [dict(pkg="internal/verifchain", entry="HC11DumpHandoff", flags=["-unwind", "1200"], require_covers=["call parked in the hand-off while the logger is busy", "closed"], no_native=True)]
       + [dict(pkg="pkg/gcc", entry="HC11PacerClose", params=dict(concretenow=1), require_covers=["closed", "tick pending at Close"])],
    level_note="PARTIAL CLAIM: lifecycle sequences are issued by one harness thread; the interceptor's own goroutines run in a cooperative model (they run when the caller blocks or yields; every select choice is explored; in the lifecycle jobs the choice of which runnable goroutine continues is explored too), i.e. schedules at synchronisation granularity, not pre-emptive interleavings; 'promptly' is read as 'returns' (a call that can never return is reported as 'all goroutines blocked'). Close racing with traffic from another goroutine is not explored.",
    bounds=dict(quick="each of {NoOp, TWCC header extension, NACK responder, NACK generator, report sender, report receiver, TWCC sender, RFC 8888 sender, packetdump receiver and sender, rtpfb, stats, flexfec encoder, jitter buffer, pacing, cc with its default gcc estimator and leaky bucket pacer}: BindRTCPWriter (writer failing nondeterministically), BindLocalStream, BindRemoteStream, BindRTCPReader; optional traffic (one write, one read of a well-formed TWCC-tagged packet, one failing RTCP read); optional Unbind+Bind of the same SSRCs with traffic; Close; the same traffic after Close; Unbind after Close. Plus, for seven reader-side interceptors (NACK generator, report receiver, TWCC sender, RFC 8888 sender, packetdump receiver, stats, jitter buffer): a Read issued on a second goroutine (with or without an RTCP writer bound) that is in progress or parked when Close is called must return. Plus, for NACK generator, report sender, report receiver, RFC 8888 sender and intervalpli: a bound stream with traffic gets feedback at a harness-fired tick; after Unbind of that stream two further ticks emit nothing about its SSRC; the same SSRC bound again with one packet far from the old sequence numbers reports from fresh state at the next tick (receiver report: nothing lost, highest = the new number; sender report: packet count 1; RFC 8888: block begins at the new number with one metric block; NACK generator: no NACK). Plus, for 14 interceptors: three remote and three local streams bound before any RTCP writer is bound: every Bind returns. Plus packetdump (receiver and sender, RTP and RTCP path) with a slow dump target: a call parked in the hand-off to the busy logger goroutine when Close is called returns, Close returns once the target finishes, nothing is left behind. Plus the gcc leaky bucket pacer (default pacer of the estimator behind the cc interceptor): 0-2 packets queued, a tick pending or not when Close is called, both outcomes of the done/tick select: Close returns only after the pacing goroutine has finished and nothing reaches the RTP writer afterwards",
                thorough="same"),
    outside=["Close racing with traffic at finer granularity than 'reader parked / not parked'", "two concurrent Close calls", "ticker fires during the sequence", "stats, packetdump, pacing, cc/gcc, jitter buffer and flexfec interceptors in the read-in-progress and unbind-then-tick scenarios (they are in the lifecycle and bind-order scenarios); intervalpli only in the unbind scenario (binding two PLI streams before any RTCP writer is bound fills its 1-slot channel and would block: not examined)", "release of per-stream memory (see C12)"],
    assumptions=["cooperative thread model", "tickers never fire unless fired by the harness"],
)

CHECKS["C12"] = dict(
    jobs=[
        dict(pkg="pkg/rtpfb", entry="HC12History", params=dict(packets=3, twcc=1), require_covers=["phase reported"]),
        dict(pkg="pkg/rtpfb", entry="HC12History", params=dict(packets=3, twcc=0), require_covers=["phase reported"]),
        dict(pkg="internal/cc", entry="HC12LRU", params=dict(size=3, adds=5), require_covers=["full"]),
        dict(pkg="pkg/rfc8888", entry="HC12StreamLog", params=dict(packets=4), require_covers=["reported"]),
        dict(pkg="pkg/twcc", entry="HC12ArrivalMap", params=dict(ops=3), flags=["-maxsteps", "80000000", "-unwind", "70000"], require_covers=["culled"]),
        dict(pkg="pkg/stats", entry="HC12StatsLists", params=dict(reports=8), require_covers=["sender report list saturated"], thorough=dict(params=dict(reports=12))),
    ],
    level_note="PARTIAL CLAIM: resource invariants of individual containers (sizes after an operation, equal sizes after two equal phases), decided on the engine's explicit heap; not measured memory, not GC reachability, not goroutine stacks, and only the containers listed. 'Does not grow with the number of packets' is claimed only as 'two successive equal phases leave equal container sizes' for the rtpfb history and as fixed bounds for the LRU, the RFC 8888 stream log and the stats recorder's report lists.",
    bounds=dict(quick="rtpfb history: two phases of 3 sent+acknowledged+reported packets (TWCC keyed / SSRC+sequence keyed, any base sequence number): all three maps empty after each report; gcc send history LRU of size 3: every sequence of 5 adds over 10 keys: length <= 3, list and index agree; RFC 8888 stream log: every sequence of 4 adds (offsets 0..5) then a report with budget 1..6: entries <= budget and none below the report pointer; TWCC arrival-time map: every sequence of 3 operations out of {add with a jump of +1,+5,+200,+9000,+40000,-3,-300; cull} from a fixed start, then EraseTo: capacity a power of two in [128, 2^15], range <= capacity, capacity <= max(128, 4*range) after each adjustment, stored entries read back (this job is a case-split enumeration: no symbolic data); stats recorder: every sequence of 8 outgoing sender reports / receiver reference time reports with symbolic NTP values: both remembered lists have length min(count, 5) and hold the newest values in order",
                thorough="same"),
    outside=["receiveLog/RTPBuffer/receiverStream (fixed-size by construction; allocation-free steps not checked)", "jitter buffer and pacer queues", "collectability after Unbind/Close", "bytes of heap"],
    assumptions=["Go maps modelled as entry lists"],
)
