# Registry of checks: property id -> jobs (harness entry points), bounds, assumptions.
CHECKS = {}

CHECKS["C20"] = dict(
    jobs=[
        dict(pkg="internal/sequencenumber", entry="HC20UnwrapStep"),
        dict(pkg="internal/sequencenumber", entry="HC20UnwrapFirst"),
    ],
    bounds=dict(quick="unwrapper: one Unwrap step, all lastUnwrapped in [0,2^62) x all 2^16 inputs (loop-free, complete for the step)",
                thorough="same"),
    outside=["lastUnwrapped >= 2^62"],
    assumptions=["go/ssa translation of the package", "z3 bit-vector decision procedure"],
)

NOT_APPLICABLE = {}
