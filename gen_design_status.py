#!/usr/bin/env python3
# Regenerates section 0 tables of DESIGN.md (findings, seeded results) from known_findings.json and seeded/*/meta.json.
import json, glob, re, os
os.chdir(os.path.dirname(os.path.abspath(__file__)))
kf = json.load(open('known_findings.json'))
rows = "\n".join("| %s | %s | %s | %s |" % (k['id'], k['property'], k['status'] + ((' ' + k.get('commit', '')) if k.get('commit') else ''), k['what'].replace('|', '/')[:260]) for k in kf)
seeded = []
for f in sorted(glob.glob('seeded/*/meta.json')):
    m = json.load(open(f))
    first = (m.get('needs') or '').strip().split('\n')[0][:150].replace('|', '/')
    seeded.append("| %s | %s | %s | %s |" % (m['id'], m['property'], ('caught (exit 1, %d VIOLATION lines)' % m['violations_reported']) if m['caught'] else 'MISSED (exit %s)' % m['check_exit'], first))
d = open('DESIGN.md').read()
d = re.sub(r'<!-- FINDINGS-BEGIN -->.*?<!-- FINDINGS-END -->', '<!-- FINDINGS-BEGIN -->\n| id | prop | status | what |\n|----|------|--------|------|\n' + rows.replace('\\', '\\\\') + '\n<!-- FINDINGS-END -->', d, flags=re.S)
d = re.sub(r'<!-- SEEDED-BEGIN -->.*?<!-- SEEDED-END -->', '<!-- SEEDED-BEGIN -->\n| seed | prop | result of the quick check with the change applied | what it needs |\n|------|------|--------|-------|\n' + "\n".join(seeded).replace('\\', '\\\\') + '\n<!-- SEEDED-END -->', d, flags=re.S)
open('DESIGN.md', 'w').write(d)
print(len(kf), 'findings', len(seeded), 'seeds')
