package main

import (
	"fmt"
	"go/types"

	"golang.org/x/tools/go/ssa"
)

func (e *Engine) lockTrack(s *State, p Ptr, n int, write bool) {
	if !e.cfg.Lockset {
		return
	}
	e.locksetAccess(s, p, n, write)
}

func (e *Engine) load(s *State, p Ptr, t types.Type) Value {
	if p.Obj == 0 {
		e.fail(s, "nil-deref", "load through nil pointer")
	}
	n := slots(t)
	o := s.obj(p.Obj)
	e.lockTrack(s, p, n, false)
	if p.Sym == nil {
		if p.Off < 0 || p.Off+n > len(o.Cells) {
			e.fail(s, "oob", fmt.Sprintf("load out of object bounds off=%d n=%d size=%d", p.Off, n, len(o.Cells)))
		}
		return unflatten(t, o.Cells[p.Off:p.Off+n])
	}
	if p.Sym.Const {
		q := Ptr{Obj: p.Obj, Off: p.Off + int(p.Sym.S64())*p.Stride}
		return e.load(s, q, t)
	}
	// symbolic index: ite chain over scalar cells
	cnt := p.Cnt
	for cnt > 0 && p.Off+(cnt-1)*p.Stride+n > len(o.Cells) {
		cnt--
	}
	lo := 0
	if iv := interval(p.Sym); iv.ok && iv.hi < uint64(cnt) {
		cnt = int(iv.hi) + 1
		lo = int(iv.lo)
	}
	out := make([]Value, n)
	for k := 0; k < n; k++ {
		var acc Value
		for i := cnt - 1; i >= lo; i-- {
			c := o.Cells[p.Off+i*p.Stride+k]
			if acc == nil {
				acc = c
				continue
			}
			if valIdentical(acc, c) {
				continue
			}
			m, ok := mergeValue(Eq(p.Sym, i64(int64(i))), c, acc)
			if !ok {
				// pointer-bearing cells: case split on the index
				v := e.concretize(s, p.Sym, "symbolic index into pointer cells")
				return e.load(s, Ptr{Obj: p.Obj, Off: p.Off + int(int64(v))*p.Stride}, t)
			}
			acc = m
		}
		if acc == nil {
			e.fail(s, "oob", "symbolic load from empty range")
		}
		out[k] = acc
	}
	return unflatten(t, out)
}

func (e *Engine) store(s *State, p Ptr, t types.Type, v Value) {
	if p.Obj == 0 {
		e.fail(s, "nil-deref", "store through nil pointer")
	}
	n := slots(t)
	vals := flatten(v)
	if len(vals) != n {
		panic(fmt.Sprintf("store: %d slots for type %v (%d)", len(vals), t, n))
	}
	e.lockTrack(s, p, n, true)
	if p.Sym != nil && p.Sym.Const {
		p = Ptr{Obj: p.Obj, Off: p.Off + int(p.Sym.S64())*p.Stride}
	}
	if p.Sym == nil {
		o := s.wobj(p.Obj)
		if p.Off < 0 || p.Off+n > len(o.Cells) {
			e.fail(s, "oob", fmt.Sprintf("store out of object bounds off=%d n=%d size=%d", p.Off, n, len(o.Cells)))
		}
		copy(o.Cells[p.Off:], vals)
		return
	}
	o := s.obj(p.Obj)
	cnt := p.Cnt
	for cnt > 0 && p.Off+(cnt-1)*p.Stride+n > len(o.Cells) {
		cnt--
	}
	lo := 0
	if iv := interval(p.Sym); iv.ok && iv.hi < uint64(cnt) {
		cnt = int(iv.hi) + 1
		lo = int(iv.lo)
	}
	// check mergeability first
	for k := 0; k < n; k++ {
		for i := lo; i < cnt; i++ {
			c := o.Cells[p.Off+i*p.Stride+k]
			if _, ok := mergeValue(TTrue, vals[k], c); !ok {
				cv := e.concretize(s, p.Sym, "symbolic index store into pointer cells")
				e.store(s, Ptr{Obj: p.Obj, Off: p.Off + int(int64(cv))*p.Stride}, t, v)
				return
			}
		}
	}
	o = s.wobj(p.Obj)
	for k := 0; k < n; k++ {
		for i := lo; i < cnt; i++ {
			idx := p.Off + i*p.Stride + k
			m, _ := mergeValue(Eq(p.Sym, i64(int64(i))), vals[k], o.Cells[idx])
			o.Cells[idx] = m
		}
	}
}

func (e *Engine) indexAddr(s *State, f *Frame, x *ssa.IndexAddr) Value {
	base := e.get(f, x.X)
	idx := e.toInt64(e.get(f, x.Index).(*Term), x.Index.Type())
	switch b := base.(type) {
	case Slice:
		et := x.X.Type().Underlying().(*types.Slice).Elem()
		st := slots(et)
		e.check(s, And(BVSle(i64(0), idx), BVSlt(idx, b.Len)), "oob", "index out of range")
		if b.Obj == 0 {
			e.fail(s, "oob", "index of nil slice")
		}
		if idx.Const {
			return Ptr{Obj: b.Obj, Off: b.Off + int(idx.S64())*st}
		}
		cnt := 0
		if st > 0 {
			cnt = (len(s.obj(b.Obj).Cells) - b.Off) / st
		}
		if b.Len.Const && int(b.Len.CV) < cnt {
			cnt = int(b.Len.CV)
		}
		return Ptr{Obj: b.Obj, Off: b.Off, Sym: idx, Stride: st, Cnt: cnt}
	case Ptr:
		at := x.X.Type().Underlying().(*types.Pointer).Elem().Underlying().(*types.Array)
		st := slots(at.Elem())
		if b.Obj == 0 {
			e.fail(s, "nil-deref", "index of nil array pointer")
		}
		e.check(s, And(BVSle(i64(0), idx), BVSlt(idx, i64(at.Len()))), "oob", "array index out of range")
		if b.Sym != nil {
			cv := e.concretize(s, b.Sym, "nested symbolic index")
			b = Ptr{Obj: b.Obj, Off: b.Off + int(int64(cv))*b.Stride}
		}
		if idx.Const {
			return Ptr{Obj: b.Obj, Off: b.Off + int(idx.S64())*st}
		}
		return Ptr{Obj: b.Obj, Off: b.Off, Sym: idx, Stride: st, Cnt: int(at.Len())}
	}
	e.unsupportedf("indexAddr on %T", base)
	return nil
}

func (e *Engine) toInt64(t *Term, ty types.Type) *Term {
	if t.S.W == 64 {
		return t
	}
	_, signed, _ := intInfo(ty)
	if signed {
		return SExt(t, 64)
	}
	return ZExt(t, 64)
}

func (e *Engine) indexVal(s *State, f *Frame, x *ssa.Index) Value {
	base := e.get(f, x.X)
	idx := e.toInt64(e.get(f, x.Index).(*Term), x.Index.Type())
	switch b := base.(type) {
	case Str:
		e.check(s, And(BVSle(i64(0), idx), BVSlt(idx, i64(int64(len(b.S))))), "oob", "string index out of range")
		i := e.concretize(s, idx, "string index")
		return BVConst(8, uint64(b.S[i]))
	case Agg:
		at := x.X.Type().Underlying().(*types.Array)
		st := slots(at.Elem())
		e.check(s, And(BVSle(i64(0), idx), BVSlt(idx, i64(at.Len()))), "oob", "array index out of range")
		if idx.Const {
			i := int(idx.S64())
			return unflatten(at.Elem(), b[i*st:(i+1)*st])
		}
		out := make([]Value, st)
		for k := 0; k < st; k++ {
			var acc Value
			for i := int(at.Len()) - 1; i >= 0; i-- {
				c := b[i*st+k]
				if acc == nil {
					acc = c
					continue
				}
				m, ok := mergeValue(Eq(idx, i64(int64(i))), c, acc)
				if !ok {
					cv := e.concretize(s, idx, "array value index")
					return unflatten(at.Elem(), b[int(cv)*st:(int(cv)+1)*st])
				}
				acc = m
			}
			out[k] = acc
		}
		return unflatten(at.Elem(), out)
	}
	e.unsupportedf("index on %T", base)
	return nil
}

func (e *Engine) sliceOp(s *State, f *Frame, x *ssa.Slice) Value {
	base := e.get(f, x.X)
	getI := func(v ssa.Value) *Term {
		if v == nil {
			return nil
		}
		return e.toInt64(e.get(f, v).(*Term), v.Type())
	}
	lo, hi, mx := getI(x.Low), getI(x.High), getI(x.Max)
	if lo == nil {
		lo = i64(0)
	}
	switch b := base.(type) {
	case Str:
		if hi == nil {
			hi = i64(int64(len(b.S)))
		}
		e.check(s, And(BVSle(i64(0), lo), BVSle(lo, hi), BVSle(hi, i64(int64(len(b.S))))), "oob", "string slice bounds out of range")
		l := e.concretize(s, lo, "string slice low")
		h := e.concretize(s, hi, "string slice high")
		return Str{S: b.S[l:h], Sym: b.Sym}
	case Slice:
		et := x.X.Type().Underlying().(*types.Slice).Elem()
		st := slots(et)
		if hi == nil {
			hi = b.Len
		}
		if mx == nil {
			mx = b.Cap
			e.check(s, And(BVSle(i64(0), lo), BVSle(lo, hi), BVSle(hi, b.Cap)), "oob", "slice bounds out of range")
		} else {
			e.check(s, And(BVSle(i64(0), lo), BVSle(lo, hi), BVSle(hi, mx), BVSle(mx, b.Cap)), "oob", "slice bounds out of range")
		}
		if b.Obj == 0 {
			return Slice{Len: i64(0), Cap: i64(0)}
		}
		l := int(int64(e.concretize(s, lo, "slice low bound")))
		return Slice{Obj: b.Obj, Off: b.Off + l*st, Len: BVSub(hi, i64(int64(l))), Cap: BVSub(mx, i64(int64(l)))}
	case Ptr:
		at := x.X.Type().Underlying().(*types.Pointer).Elem().Underlying().(*types.Array)
		st := slots(at.Elem())
		if b.Obj == 0 {
			e.fail(s, "nil-deref", "slice of nil array pointer")
		}
		n := i64(at.Len())
		if hi == nil {
			hi = n
		}
		if mx == nil {
			mx = n
		}
		e.check(s, And(BVSle(i64(0), lo), BVSle(lo, hi), BVSle(hi, mx), BVSle(mx, n)), "oob", "slice bounds out of range")
		l := int(int64(e.concretize(s, lo, "slice low bound")))
		return Slice{Obj: b.Obj, Off: b.Off + l*st, Len: BVSub(hi, i64(int64(l))), Cap: BVSub(mx, i64(int64(l)))}
	}
	e.unsupportedf("slice of %T", base)
	return nil
}

// ubound: syntactic unsigned upper bound of a term (best effort).
var varBounds = map[*Term][2]uint64{}

func ubound(t *Term) uint64 {
	if t.Const {
		if t.CBig != nil {
			return ^uint64(0)
		}
		return t.CV
	}
	full := mask(t.S.W)
	switch t.Op {
	case "var":
		if b, ok := varBounds[t]; ok {
			return b[1]
		}
	case "zext":
		return ubound(t.Args[0])
	case "sext":
		u := ubound(t.Args[0])
		if u < uint64(1)<<uint(t.Args[0].S.W-1) {
			return u
		}
	case "ite":
		a, b := ubound(t.Args[1]), ubound(t.Args[2])
		if a > b {
			return a
		}
		return b
	case "bvadd":
		a, b := ubound(t.Args[0]), ubound(t.Args[1])
		if a+b >= a && a+b <= full {
			return a + b
		}
	case "bvmul":
		a, b := ubound(t.Args[0]), ubound(t.Args[1])
		if a != 0 && b <= full/a {
			return a * b
		}
		if a == 0 {
			return 0
		}
	case "bvand":
		a, b := ubound(t.Args[0]), ubound(t.Args[1])
		if a < b {
			return a
		}
		return b
	case "bvlshr":
		return ubound(t.Args[0])
	case "bvurem":
		b := ubound(t.Args[1])
		if b > 0 {
			return b - 1
		}
	case "bvudiv":
		return ubound(t.Args[0])
	case "extract":
		if t.P2 == 0 {
			u := ubound(t.Args[0])
			if u <= full {
				return u
			}
		}
	case "bvsub":
		// x - c with c const: bounded by ubound(x) if no wrap is assumed... cannot know
	}
	return full
}

// maxValue: upper bound of t under pc using solver (binary search) limited to cap.
func (e *Engine) maxValue(s *State, t *Term, limit uint64) (uint64, bool) {
	if u := ubound(t); u <= limit {
		return u, true
	}
	// is t <= limit always?
	w := t.S.W
	r, _ := e.sat(s, BVUlt(BVConst(w, limit), t))
	if r != Unsat {
		return 0, false
	}
	lo, hi := uint64(0), limit
	for lo < hi {
		mid := (lo + hi) / 2
		r, _ := e.sat(s, BVUlt(BVConst(w, mid), t))
		if r == Unsat {
			hi = mid
		} else {
			lo = mid + 1
		}
	}
	return lo, true
}

func (e *Engine) makeSlice(s *State, f *Frame, x *ssa.MakeSlice) Value {
	et := x.Type().Underlying().(*types.Slice).Elem()
	ln := e.toInt64(e.get(f, x.Len).(*Term), x.Len.Type())
	cp := e.toInt64(e.get(f, x.Cap).(*Term), x.Cap.Type())
	e.check(s, And(BVSle(i64(0), ln), BVSle(ln, cp)), "makeslice", "makeslice: len out of range")
	var phys int
	if cp.Const {
		phys = int(cp.CV)
		if phys > 1<<22 {
			e.unsupportedf("makeslice too large: %d", phys)
		}
	} else {
		m, ok := e.maxValue(s, cp, 1<<16)
		if !ok {
			e.unsupportedf("makeslice: symbolic capacity not bounded by 65536")
		}
		phys = int(m)
	}
	id := s.allocMem(et, phys, e.pos(x))
	return Slice{Obj: id, Len: ln, Cap: cp}
}

// ---- maps

func (e *Engine) mapLookupIdx(s *State, o *Object, key Value) (conds []*Term) {
	conds = make([]*Term, len(o.Entries))
	for i, en := range o.Entries {
		conds[i] = And(en.Live, valueEq(en.Key, key))
	}
	return
}

func scalarOnly(v Value) bool {
	switch x := v.(type) {
	case *Term:
		return true
	case Agg:
		for _, c := range x {
			if !scalarOnly(c) {
				return false
			}
		}
		return true
	}
	return false
}

// mapGet returns (value, found)
func (e *Engine) mapGet(s *State, m MapRef, key Value, valT types.Type) (Value, *Term) {
	if m.Obj == 0 {
		return zeroValue(valT), TFalse
	}
	o := s.obj(m.Obj)
	conds := e.mapLookupIdx(s, o, key)
	zero := zeroValue(valT)
	allScalar := scalarOnly(zero)
	if allScalar {
		for _, en := range o.Entries {
			if !scalarOnly(en.Val) {
				allScalar = false
			}
		}
	}
	if allScalar {
		val := zero
		found := TFalse
		for i := len(o.Entries) - 1; i >= 0; i-- {
			if conds[i].IsFalse() {
				continue
			}
			v, _ := mergeValue(conds[i], o.Entries[i].Val, val)
			val = v
			found = Or(found, conds[i])
		}
		return val, found
	}
	// pointer-bearing values: decide entry by entry (forks)
	for i := range o.Entries {
		if conds[i].IsFalse() {
			continue
		}
		if e.decide(s, conds[i]) {
			return o.Entries[i].Val, TTrue
		}
	}
	return zero, TFalse
}

func (e *Engine) mapUpdate(s *State, m MapRef, key, val Value) {
	if m.Obj == 0 {
		e.fail(s, "nil-map", "assignment to entry in nil map")
	}
	o := s.obj(m.Obj)
	conds := e.mapLookupIdx(s, o, key)
	// definite hit?
	for i := range conds {
		if conds[i].IsTrue() {
			w := s.wobj(m.Obj)
			w.Entries[i].Val = val
			return
		}
	}
	w := s.wobj(m.Obj)
	anyHit := TFalse
	for i := range conds {
		if conds[i].IsFalse() {
			continue
		}
		nv, ok := mergeValue(conds[i], val, w.Entries[i].Val)
		if !ok {
			// fork on this entry
			if e.decide(s, conds[i]) {
				w = s.wobj(m.Obj)
				w.Entries[i].Val = val
				return
			}
			continue
		}
		w.Entries[i].Val = nv
		anyHit = Or(anyHit, conds[i])
	}
	w.Entries = append(w.Entries, MapEntry{Key: key, Val: val, Live: Not(anyHit)})
}

func (e *Engine) mapDelete(s *State, m MapRef, key Value) {
	if m.Obj == 0 {
		return
	}
	o := s.obj(m.Obj)
	conds := e.mapLookupIdx(s, o, key)
	w := s.wobj(m.Obj)
	for i := range conds {
		if conds[i].IsFalse() {
			continue
		}
		w.Entries[i].Live = And(w.Entries[i].Live, Not(conds[i]))
	}
	// dead entries are kept (Live == false): range iterators hold entry indices
}

func (e *Engine) mapLen(s *State, m MapRef) *Term {
	if m.Obj == 0 {
		return i64(0)
	}
	o := s.obj(m.Obj)
	n := i64(0)
	for _, en := range o.Entries {
		n = BVAdd(n, Ite(en.Live, i64(1), i64(0)))
	}
	return n
}

func (e *Engine) lookup(s *State, f *Frame, x *ssa.Lookup) Value {
	base := e.get(f, x.X)
	if st, ok := base.(Str); ok {
		idx := e.toInt64(e.get(f, x.Index).(*Term), x.Index.Type())
		e.check(s, And(BVSle(i64(0), idx), BVSlt(idx, i64(int64(len(st.S))))), "oob", "string index out of range")
		i := e.concretize(s, idx, "string index")
		return BVConst(8, uint64(st.S[i]))
	}
	m := base.(MapRef)
	vt := x.X.Type().Underlying().(*types.Map).Elem()
	v, found := e.mapGet(s, m, e.get(f, x.Index), vt)
	if x.CommaOk {
		return Tuple{v, found}
	}
	return v
}

func (e *Engine) rangeInit(s *State, v Value) Value {
	switch x := v.(type) {
	case MapRef:
		it := Iter{Map: x.Obj}
		if x.Obj != 0 {
			for i := range s.obj(x.Obj).Entries {
				it.Keys = append(it.Keys, i)
			}
		}
		return it
	case Str:
		return Iter{Str: x.S}
	}
	e.unsupportedf("range over %T", v)
	return nil
}

func (e *Engine) rangeNext(s *State, x *ssa.Next, it *Iter) Value { // it is a private copy
	if x.IsString {
		if it.Pos >= len(it.Str) {
			return Tuple{TFalse, i64(0), BVConst(32, 0)}
		}
		// bytes only (ASCII)
		r := Tuple{TTrue, i64(int64(it.Pos)), BVConst(32, uint64(it.Str[it.Pos]))}
		it.Pos++
		return r
	}
	tup := x.Type().(*types.Tuple)
	kt, vt := tup.At(1).Type(), tup.At(2).Type()
	for it.Pos < len(it.Keys) {
		if it.Map == 0 {
			break
		}
		o := s.obj(it.Map)
		i := it.Keys[it.Pos]
		// entries may have been compacted by delete: snapshot index may be stale; guard
		if i >= len(o.Entries) {
			it.Pos++
			continue
		}
		en := o.Entries[i]
		if en.Live.IsFalse() {
			it.Pos++
			continue
		}
		// NOTE: Iter is shared between cloned states; decide() forks before we mutate.
		live := e.decide(s, en.Live)
		// mutate a copy to stay fork-safe
		if !live {
			it.Pos++
			continue
		}
		it.Pos++
		var kv, vv Value = zeroAny(kt), zeroAny(vt)
		if !isInvalid(kt) {
			kv = en.Key
		}
		if !isInvalid(vt) {
			vv = en.Val
		}
		return Tuple{TTrue, kv, vv}
	}
	return Tuple{TFalse, zeroAny(kt), zeroAny(vt)}
}

func isInvalid(t types.Type) bool {
	b, ok := t.(*types.Basic)
	return ok && b.Kind() == types.Invalid
}

func zeroAny(t types.Type) Value {
	if isInvalid(t) {
		return TFalse
	}
	return zeroValue(t)
}

// ---- builtins

func (e *Engine) builtin(s *State, f *Frame, name string, args []Value, call ssa.Value) Value {
	var argT func(i int) types.Type
	if c, ok := call.(*ssa.Call); ok {
		argT = func(i int) types.Type { return c.Call.Args[i].Type() }
	}
	switch name {
	case "len":
		switch x := args[0].(type) {
		case Slice:
			return x.Len
		case Str:
			return i64(int64(len(x.S)))
		case MapRef:
			return e.mapLen(s, x)
		case ChanRef:
			if x.Obj == 0 {
				return i64(0)
			}
			return i64(int64(len(s.obj(x.Obj).Buf)))
		case Ptr:
			at := argT(0).Underlying().(*types.Pointer).Elem().Underlying().(*types.Array)
			return i64(at.Len())
		case Agg:
			at := argT(0).Underlying().(*types.Array)
			return i64(at.Len())
		}
	case "cap":
		switch x := args[0].(type) {
		case Slice:
			return x.Cap
		case ChanRef:
			if x.Obj == 0 {
				return i64(0)
			}
			return i64(int64(s.obj(x.Obj).ChCap))
		case Ptr:
			at := argT(0).Underlying().(*types.Pointer).Elem().Underlying().(*types.Array)
			return i64(at.Len())
		}
	case "append":
		return e.appendOp(s, args[0].(Slice), args[1], argT(0))
	case "copy":
		return e.copyOp(s, args[0].(Slice), args[1], argT(0))
	case "delete":
		e.mapDelete(s, args[0].(MapRef), args[1])
		return nil
	case "clear":
		switch x := args[0].(type) {
		case MapRef:
			if x.Obj != 0 {
				s.wobj(x.Obj).Entries = nil
			}
			return nil
		case Slice:
			et := argT(0).Underlying().(*types.Slice).Elem()
			n := int(e.concretize(s, x.Len, "clear len"))
			z := zeroSlots(et, nil)
			if x.Obj != 0 {
				o := s.wobj(x.Obj)
				for i := 0; i < n; i++ {
					copy(o.Cells[x.Off+i*len(z):], z)
				}
			}
			return nil
		}
	case "min", "max":
		acc := args[0].(*Term)
		t0 := argT(0)
		for i := 1; i < len(args); i++ {
			b := args[i].(*Term)
			var lt *Term
			if acc.S.K == KFP {
				lt = FPLt(b, acc)
			} else if _, signed, _ := intInfo(t0); signed {
				lt = BVSlt(b, acc)
			} else {
				lt = BVUlt(b, acc)
			}
			if name == "max" {
				if acc.S.K == KFP {
					lt = FPLt(acc, b)
				} else if _, signed, _ := intInfo(t0); signed {
					lt = BVSlt(acc, b)
				} else {
					lt = BVUlt(acc, b)
				}
			}
			acc = Ite(lt, b, acc)
		}
		return acc
	case "close":
		c := args[0].(ChanRef)
		if c.Obj == 0 {
			e.fail(s, "panic", "close of nil channel")
		}
		o := s.wobj(c.Obj)
		if o.Closed {
			e.fail(s, "panic", "close of closed channel")
		}
		o.Closed = true
		e.wakeChan(s, c.Obj)
		return nil
	case "print", "println":
		return nil
	case "ssa:wrapnilchk":
		if p, ok := args[0].(Ptr); ok && p.Obj == 0 {
			e.fail(s, "nil-deref", "value method called through nil pointer")
		}
		return args[0]
	case "panic":
		e.fail(s, "panic", "panic")
	case "recover":
		return Iface{}
	}
	e.unsupportedf("builtin %s(%T)", name, args[0])
	return nil
}

func (e *Engine) appendOp(s *State, dst Slice, src Value, st types.Type) Value {
	var et types.Type
	if sl, ok := st.Underlying().(*types.Slice); ok {
		et = sl.Elem()
	} else {
		e.unsupportedf("append type %v", st)
	}
	ss := slots(et)
	// source cells
	var srcCells []Value
	var srcLen *Term
	switch x := src.(type) {
	case Slice:
		srcLen = x.Len
		if x.Obj != 0 {
			n := int(e.concretize(s, x.Len, "append source length"))
			o := s.obj(x.Obj)
			srcCells = append(srcCells, o.Cells[x.Off:x.Off+n*ss]...)
		}
	case Str:
		srcLen = i64(int64(len(x.S)))
		for i := 0; i < len(x.S); i++ {
			srcCells = append(srcCells, BVConst(8, uint64(x.S[i])))
		}
	}
	k := 0
	if ss > 0 {
		k = len(srcCells) / ss
	}
	_ = srcLen
	if k == 0 {
		return dst
	}
	newLen := BVAdd(dst.Len, i64(int64(k)))
	fits := BVSle(newLen, dst.Cap)
	if dst.Obj != 0 && e.decide(s, fits) {
		// in place at (possibly symbolic) index len
		if dst.Len.Const {
			o := s.wobj(dst.Obj)
			copy(o.Cells[dst.Off+int(dst.Len.CV)*ss:], srcCells)
		} else {
			for j := 0; j < k; j++ {
				p := Ptr{Obj: dst.Obj, Off: dst.Off + j*ss, Sym: dst.Len, Stride: ss, Cnt: (len(s.obj(dst.Obj).Cells)-dst.Off)/ss - j}
				e.store(s, p, et, unflatten(et, srcCells[j*ss:(j+1)*ss]))
			}
		}
		return Slice{Obj: dst.Obj, Off: dst.Off, Len: newLen, Cap: dst.Cap}
	}
	// grow: physical capacity from max possible length
	var oldPhys int
	if dst.Obj != 0 {
		if dst.Len.Const {
			oldPhys = int(dst.Len.CV)
		} else {
			m, ok := e.maxValue(s, dst.Len, uint64((len(s.obj(dst.Obj).Cells)-dst.Off)/maxInt(ss, 1)))
			if !ok {
				m = uint64((len(s.obj(dst.Obj).Cells) - dst.Off) / maxInt(ss, 1))
			}
			oldPhys = int(m)
		}
	}
	need := oldPhys + k
	var oldCap int
	if dst.Cap.Const {
		oldCap = int(dst.Cap.CV)
	} else {
		oldCap = oldPhys
	}
	newCap := growCap(oldCap, need, ss, et)
	id := s.allocMem(et, newCap, "append")
	o := s.wobj(id)
	if dst.Obj != 0 {
		copy(o.Cells, s.obj(dst.Obj).Cells[dst.Off:dst.Off+oldPhys*ss])
	}
	ns := Slice{Obj: id, Len: newLen, Cap: i64(int64(newCap))}
	if dst.Len.Const {
		copy(o.Cells[int(dst.Len.CV)*ss:], srcCells)
	} else {
		for j := 0; j < k; j++ {
			p := Ptr{Obj: id, Off: j * ss, Sym: dst.Len, Stride: ss, Cnt: newCap - j}
			e.store(s, p, et, unflatten(et, srcCells[j*ss:(j+1)*ss]))
		}
	}
	return ns
}

func maxInt(a, b int) int {
	if a > b {
		return a
	}
	return b
}

// growCap approximates runtime.growslice (without size-class rounding except for bytes).
func growCap(oldCap, need, ss int, et types.Type) int {
	newcap := oldCap
	doublecap := newcap + newcap
	if need > doublecap {
		newcap = need
	} else {
		const threshold = 256
		if oldCap < threshold {
			newcap = doublecap
		} else {
			for newcap < need {
				newcap += (newcap + 3*threshold) >> 2
			}
		}
	}
	if newcap < need {
		newcap = need
	}
	// size-class rounding for small byte-sized elements
	if b, ok := et.Underlying().(*types.Basic); ok && ss == 1 {
		w, _, _ := basicWidth(b)
		if w > 0 {
			bytes := newcap * w / 8
			classes := []int{8, 16, 24, 32, 48, 64, 80, 96, 112, 128, 144, 160, 176, 192, 208, 224, 240, 256, 288, 320, 352, 384, 416, 448, 480, 512, 576, 640, 704, 768, 896, 1024, 1152, 1280, 1408, 1536, 1792, 2048, 2304, 2688, 3072, 3200, 3456, 4096, 4864, 5376, 6144, 6528, 6784, 6912, 8192, 9472, 9728, 10240, 10880, 12288, 13568, 14336, 16384, 18432, 19072, 20480, 21760, 24576, 27264, 28672, 32768}
			for _, c := range classes {
				if c >= bytes {
					return c * 8 / w
				}
			}
		}
	}
	return newcap
}

func (e *Engine) copyOp(s *State, dst Slice, src Value, dt types.Type) Value {
	et := dt.Underlying().(*types.Slice).Elem()
	ss := slots(et)
	var srcCells func(i int) []Value
	var srcLen *Term
	var srcPhys int
	switch x := src.(type) {
	case Slice:
		srcLen = x.Len
		if x.Obj == 0 {
			return i64(0)
		}
		so := s.obj(x.Obj)
		snapshot := append([]Value(nil), so.Cells[x.Off:]...)
		srcPhys = len(snapshot) / maxInt(ss, 1)
		srcCells = func(i int) []Value { return snapshot[i*ss : (i+1)*ss] }
	case Str:
		srcLen = i64(int64(len(x.S)))
		srcPhys = len(x.S)
		srcCells = func(i int) []Value { return []Value{BVConst(8, uint64(x.S[i]))} }
	}
	if dst.Obj == 0 {
		return i64(0)
	}
	n := Ite(BVSlt(srcLen, dst.Len), srcLen, dst.Len)
	do := s.wobj(dst.Obj)
	dstPhys := (len(do.Cells) - dst.Off) / maxInt(ss, 1)
	if n.Const {
		for i := 0; i < int(n.CV); i++ {
			copy(do.Cells[dst.Off+i*ss:], srcCells(i))
		}
		return n
	}
	lim := dstPhys
	if srcPhys < lim {
		lim = srcPhys
	}
	if m, ok := e.maxValue(s, n, uint64(lim)); ok && int(m) < lim {
		lim = int(m)
	}
	do = s.wobj(dst.Obj)
	for i := 0; i < lim; i++ {
		c := BVSlt(i64(int64(i)), n)
		sc := srcCells(i)
		for k := 0; k < ss; k++ {
			idx := dst.Off + i*ss + k
			m, ok := mergeValue(c, sc[k], do.Cells[idx])
			if !ok {
				cv := e.concretize(s, n, "copy length (pointer cells)")
				_ = cv
				return e.copyOp(s, dst, src, dt)
			}
			do.Cells[idx] = m
		}
	}
	return n
}

func (e *Engine) locksetAccess(s *State, p Ptr, n int, write bool) {
	// implemented in lockset.go (optional)
	locksetAccessImpl(e, s, p, n, write)
}

var _ = fmt.Sprintf
