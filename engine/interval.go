package main

// Cheap, path-insensitive unsigned interval analysis on terms (w<=64), used to discharge
// bounds checks such as "counter < len" without a solver query. Sound: returns true only
// if the condition holds for every valuation of the variables.

type ival struct {
	lo, hi uint64
	ok     bool
}

var ivalMemo = map[*Term]ival{}

func interval(t *Term) ival {
	if t.S.K != KBV || t.S.W > 64 {
		return ival{}
	}
	if t.Const {
		return ival{t.CV, t.CV, true}
	}
	if r, ok := ivalMemo[t]; ok {
		return r
	}
	full := ival{0, mask(t.S.W), true}
	r := full
	switch t.Op {
	case "var":
		if b, ok := varBounds[t]; ok {
			r = ival{b[0], b[1], true}
		}
	case "zext":
		r = interval(t.Args[0])
	case "ite":
		a, b := interval(t.Args[1]), interval(t.Args[2])
		r = ival{minU(a.lo, b.lo), maxU(a.hi, b.hi), true}
	case "bvadd":
		a, b := interval(t.Args[0]), interval(t.Args[1])
		if a.hi+b.hi >= a.hi && a.hi+b.hi <= full.hi {
			r = ival{a.lo + b.lo, a.hi + b.hi, true}
		}
	case "bvmul":
		a, b := interval(t.Args[0]), interval(t.Args[1])
		if a.hi == 0 || b.hi <= full.hi/a.hi {
			r = ival{a.lo * b.lo, a.hi * b.hi, true}
		}
	case "bvand":
		a, b := interval(t.Args[0]), interval(t.Args[1])
		r = ival{0, minU(a.hi, b.hi), true}
	case "bvlshr", "bvudiv":
		a := interval(t.Args[0])
		r = ival{0, a.hi, true}
	case "bvurem":
		b := interval(t.Args[1])
		if b.lo > 0 {
			r = ival{0, b.hi - 1, true}
		}
	case "extract":
		if t.P2 == 0 {
			a := interval(t.Args[0])
			if a.hi <= full.hi {
				r = a
			}
		}
	case "concat":
		// zero high part handled by ZExt; generic: full
	}
	ivalMemo[t] = r
	return r
}

func minU(a, b uint64) uint64 {
	if a < b {
		return a
	}
	return b
}
func maxU(a, b uint64) uint64 {
	if a > b {
		return a
	}
	return b
}

// cheapTrue: true only if c certainly holds.
func cheapTrue(c *Term) bool {
	if c.IsTrue() {
		return true
	}
	switch c.Op {
	case "and":
		for _, a := range c.Args {
			if !cheapTrue(a) {
				return false
			}
		}
		return true
	case "or":
		for _, a := range c.Args {
			if cheapTrue(a) {
				return true
			}
		}
		return false
	case "not":
		return cheapFalse(c.Args[0])
	case "bvult", "bvule", "bvslt", "bvsle":
		a, b := interval(c.Args[0]), interval(c.Args[1])
		if !a.ok || !b.ok {
			return false
		}
		w := c.Args[0].S.W
		if c.Op == "bvslt" || c.Op == "bvsle" {
			half := uint64(1) << uint(w-1)
			if a.hi >= half || b.hi >= half {
				return false
			}
		}
		if c.Op == "bvult" || c.Op == "bvslt" {
			return a.hi < b.lo
		}
		return a.hi <= b.lo
	}
	return false
}

func cheapFalse(c *Term) bool {
	if c.IsFalse() {
		return true
	}
	switch c.Op {
	case "not":
		return cheapTrue(c.Args[0])
	case "and":
		for _, a := range c.Args {
			if cheapFalse(a) {
				return true
			}
		}
		return false
	case "or":
		for _, a := range c.Args {
			if !cheapFalse(a) {
				return false
			}
		}
		return true
	case "bvult", "bvule", "bvslt", "bvsle":
		a, b := interval(c.Args[0]), interval(c.Args[1])
		if !a.ok || !b.ok {
			return false
		}
		w := c.Args[0].S.W
		if c.Op == "bvslt" || c.Op == "bvsle" {
			half := uint64(1) << uint(w-1)
			if a.hi >= half || b.hi >= half {
				return false
			}
		}
		if c.Op == "bvult" || c.Op == "bvslt" {
			return a.lo >= b.hi
		}
		return a.lo > b.hi
	case "=":
		a, b := interval(c.Args[0]), interval(c.Args[1])
		if a.ok && b.ok && (a.hi < b.lo || b.hi < a.lo) {
			return true
		}
	}
	return false
}
