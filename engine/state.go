package main

import (
	"fmt"
	"go/types"

	"golang.org/x/tools/go/ssa"
)

type fnInfo struct {
	idx  map[ssa.Value]int
	n    int
	loopCtl map[*ssa.BasicBlock]bool
	defBlock []*ssa.BasicBlock // defining block per env index (nil: param/freevar)
	ipd  map[*ssa.BasicBlock]*ssa.BasicBlock // immediate post-dominator
	done bool
}

type Deferred struct {
	Fn   Value // Closure
	Args []Value
	Call *ssa.CallCommon
}

type Frame struct {
	id      int
	fn      *ssa.Function
	info    *fnInfo
	env     []Value
	block   *ssa.BasicBlock
	prev    *ssa.BasicBlock
	pc      int
	defers  []Deferred
	result  ssa.Value // call instruction in caller awaiting result (nil: discard)
	visits  map[int]int
	retHook string // intrinsic continuation marker
}

func (f *Frame) clone() *Frame {
	n := *f
	n.env = append([]Value(nil), f.env...)
	n.defers = append([]Deferred(nil), f.defers...)
	n.visits = make(map[int]int, len(f.visits))
	for k, v := range f.visits {
		n.visits[k] = v
	}
	return &n
}

type ThreadStatus int

const (
	TRunnable ThreadStatus = iota
	TBlocked
	TDone
)

type Thread struct {
	id     int
	frames []*Frame
	status ThreadStatus
	// blocking
	waitKind string // "lock","rlock","chanrecv","chansend","select","wg","sleep","cond"
	waitPtr  Ptr
	waitObj  int
	label    string
	isHarness bool
	waitSelCases []selCase
	forced   *forcedOp
}

func (t *Thread) clone() *Thread {
	n := *t
	n.frames = make([]*Frame, len(t.frames))
	for i, f := range t.frames {
		n.frames[i] = f.clone()
	}
	return &n
}

func (t *Thread) top() *Frame {
	if len(t.frames) == 0 {
		return nil
	}
	return t.frames[len(t.frames)-1]
}

type NondetRec struct {
	Kind string
	Var  *Term
	N    int     // for bytes
	Vars []*Term // for bytes
	Site string
}

type addr struct{ obj, off int }

type State struct {
	id      int
	heap    []*Object
	threads []*Thread
	cur     int
	pc      []*Term
	facts   map[int]*Term // term id -> constant (decisions / concretizations)
	models  []Model       // models known to satisfy pc
	nondets []NondetRec
	sched   []int // scheduling decisions
	covers  map[string]bool
	observes []Observed
	steps   int
	pools   map[addr][]Value
	syncMaps map[addr]int
	lockOwner map[addr]int // mutex -> thread id holding (write lock)
	rlockCnt  map[addr]int
	kf      map[string]*Term // known-finding predicates
	ghost   map[string]Value
	nextFrame int
	allocLog []int
	preempts int
	tickBudget map[int]int
	now     *Term // current time lower bound (96-bit) for time.Now monotonicity
	inconclusive string
	depth   int
	locksHeld map[int][]addr // thread -> held locks (for lockset)
	atomicCells map[addr]bool
	plainCells map[addr]string
	choices []int
	pendingPreempt bool
	tickers []int
}

type Observed struct {
	Label string
	V     *Term
}

var stateCounter = 0

func newStateID() int { stateCounter++; return stateCounter }

func (s *State) clone() *State {
	n := *s
	n.id = newStateID()
	s.id = newStateID()
	n.heap = append([]*Object(nil), s.heap...)
	n.threads = make([]*Thread, len(s.threads))
	for i, t := range s.threads {
		n.threads[i] = t.clone()
	}
	n.pc = append([]*Term(nil), s.pc...)
	n.models = append([]Model(nil), s.models...)
	n.facts = make(map[int]*Term, len(s.facts))
	for k, v := range s.facts {
		n.facts[k] = v
	}
	n.nondets = append([]NondetRec(nil), s.nondets...)
	n.sched = append([]int(nil), s.sched...)
	n.covers = make(map[string]bool, len(s.covers))
	for k, v := range s.covers {
		n.covers[k] = v
	}
	n.observes = append([]Observed(nil), s.observes...)
	n.pools = make(map[addr][]Value, len(s.pools))
	for k, v := range s.pools {
		n.pools[k] = append([]Value(nil), v...)
	}
	n.syncMaps = make(map[addr]int, len(s.syncMaps))
	for k, v := range s.syncMaps {
		n.syncMaps[k] = v
	}
	n.lockOwner = make(map[addr]int, len(s.lockOwner))
	for k, v := range s.lockOwner {
		n.lockOwner[k] = v
	}
	n.rlockCnt = make(map[addr]int, len(s.rlockCnt))
	for k, v := range s.rlockCnt {
		n.rlockCnt[k] = v
	}
	n.kf = make(map[string]*Term, len(s.kf))
	for k, v := range s.kf {
		n.kf[k] = v
	}
	n.ghost = make(map[string]Value, len(s.ghost))
	for k, v := range s.ghost {
		n.ghost[k] = v
	}
	n.allocLog = append([]int(nil), s.allocLog...)
	n.choices = append([]int(nil), s.choices...)
	n.tickers = append([]int(nil), s.tickers...)
	n.tickBudget = make(map[int]int, len(s.tickBudget))
	for k, v := range s.tickBudget {
		n.tickBudget[k] = v
	}
	n.locksHeld = make(map[int][]addr, len(s.locksHeld))
	for k, v := range s.locksHeld {
		n.locksHeld[k] = append([]addr(nil), v...)
	}
	n.atomicCells = make(map[addr]bool, len(s.atomicCells))
	for k, v := range s.atomicCells {
		n.atomicCells[k] = v
	}
	n.plainCells = make(map[addr]string, len(s.plainCells))
	for k, v := range s.plainCells {
		n.plainCells[k] = v
	}
	return &n
}

func (s *State) thread() *Thread { return s.threads[s.cur] }
func (s *State) frame() *Frame   { return s.threads[s.cur].top() }

func (s *State) obj(id int) *Object { return s.heap[id] }

func (s *State) wobj(id int) *Object {
	o := s.heap[id]
	if o.owner != s.id {
		o = o.clone(s.id)
		s.heap[id] = o
	}
	return o
}

func (s *State) alloc(o *Object) int {
	o.owner = s.id
	s.heap = append(s.heap, o)
	id := len(s.heap) - 1
	s.allocLog = append(s.allocLog, id)
	return id
}

func (s *State) allocMem(t types.Type, n int, site string) int {
	cells := make([]Value, 0, slots(t)*n)
	one := zeroSlots(t, nil)
	for i := 0; i < n; i++ {
		cells = append(cells, one...)
	}
	return s.alloc(&Object{Kind: OMem, Cells: cells, ElemT: t, Site: site})
}

func (s *State) addPC(c *Term) {
	if c.IsTrue() {
		return
	}
	if f, ok := s.factOf(c); ok && f.IsTrue() {
		s.setFact(c, TTrue)
		return
	}
	if c.Op == "and" {
		for _, a := range c.Args {
			s.addPC(a)
		}
		s.setFact(c, TTrue)
		return
	}
	s.pc = append(s.pc, c)
	s.setFact(c, TTrue)
	if len(s.models) > 0 {
		var keep []Model
		for _, m := range s.models {
			if r := m.Eval(c, map[*Term]*Term{}); r != nil && r.IsTrue() {
				keep = append(keep, m)
			}
		}
		s.models = keep
	}
}

// ---- value equality (as a term)

func valueEq(a, b Value) *Term {
	switch x := a.(type) {
	case *Term:
		y, ok := b.(*Term)
		if !ok {
			return TFalse
		}
		if x.S.K == KFP {
			return FPEq(x, y)
		}
		return Eq(x, y)
	case Ptr:
		y, ok := b.(Ptr)
		if !ok {
			return TFalse
		}
		if x.Obj != y.Obj {
			return TFalse
		}
		if x.Sym == nil && y.Sym == nil {
			return BoolConst(x.Off == y.Off)
		}
		return Eq(ptrOffTerm(x), ptrOffTerm(y))
	case Str:
		y, ok := b.(Str)
		if !ok {
			return TFalse
		}
		return BoolConst(x.S == y.S)
	case Iface:
		y, ok := b.(Iface)
		if !ok {
			return TFalse
		}
		if x.T == nil || y.T == nil {
			return BoolConst(x.T == nil && y.T == nil)
		}
		if !types.Identical(x.T, y.T) {
			return TFalse
		}
		return valueEq(x.V, y.V)
	case MapRef:
		y, ok := b.(MapRef)
		return BoolConst(ok && x.Obj == y.Obj)
	case ChanRef:
		y, ok := b.(ChanRef)
		return BoolConst(ok && x.Obj == y.Obj)
	case Closure:
		y, ok := b.(Closure)
		return BoolConst(ok && x.IsNil() && y.IsNil())
	case Slice:
		y, ok := b.(Slice)
		return BoolConst(ok && x.Obj == 0 && y.Obj == 0)
	case Agg:
		y, ok := b.(Agg)
		if !ok || len(x) != len(y) {
			return TFalse
		}
		r := TTrue
		for i := range x {
			r = And(r, valueEq(x[i], y[i]))
		}
		return r
	case nil:
		return BoolConst(b == nil)
	}
	panic(fmt.Sprintf("valueEq: unsupported %T", a))
}

func ptrOffTerm(p Ptr) *Term {
	if p.Sym == nil {
		return i64(int64(p.Off))
	}
	return BVAdd(i64(int64(p.Off)), BVMul(p.Sym, i64(int64(p.Stride))))
}

// sameShape: are two leaf values mergeable; returns merged value
func mergeValue(c *Term, a, b Value) (Value, bool) {
	switch x := a.(type) {
	case *Term:
		y, ok := b.(*Term)
		if !ok || x.S != y.S {
			return nil, false
		}
		return Ite(c, x, y), true
	case Ptr:
		y, ok := b.(Ptr)
		if !ok || x.Obj != y.Obj || x.Stride != y.Stride && x.Sym != nil && y.Sym != nil {
			return nil, false
		}
		if x == y {
			return x, true
		}
		if x.Obj == y.Obj && x.Sym == nil && y.Sym == nil && x.Off == y.Off {
			return x, true
		}
		return nil, false
	case Slice:
		y, ok := b.(Slice)
		if !ok || x.Obj != y.Obj || x.Off != y.Off {
			return nil, false
		}
		return Slice{Obj: x.Obj, Off: x.Off, Len: Ite(c, x.Len, y.Len), Cap: Ite(c, x.Cap, y.Cap)}, true
	case Str:
		y, ok := b.(Str)
		if !ok || x != y {
			return nil, false
		}
		return x, true
	case Iface:
		y, ok := b.(Iface)
		if !ok {
			return nil, false
		}
		if x.T == nil && y.T == nil {
			return x, true
		}
		if x.T == nil || y.T == nil || !types.Identical(x.T, y.T) {
			return nil, false
		}
		v, ok := mergeValue(c, x.V, y.V)
		if !ok {
			return nil, false
		}
		return Iface{T: x.T, V: v}, true
	case MapRef:
		y, ok := b.(MapRef)
		return x, ok && x == y
	case ChanRef:
		y, ok := b.(ChanRef)
		return x, ok && x == y
	case Closure:
		y, ok := b.(Closure)
		if !ok || x.Fn != y.Fn || x.Intr != y.Intr || len(x.Binds) != len(y.Binds) {
			return nil, false
		}
		nb := make([]Value, len(x.Binds))
		for i := range x.Binds {
			v, ok := mergeValue(c, x.Binds[i], y.Binds[i])
			if !ok {
				return nil, false
			}
			nb[i] = v
		}
		if x.Recv != nil || y.Recv != nil {
			r, ok := mergeValue(c, x.Recv, y.Recv)
			if !ok {
				return nil, false
			}
			return Closure{Fn: x.Fn, Binds: nb, Intr: x.Intr, Recv: r}, true
		}
		return Closure{Fn: x.Fn, Binds: nb, Intr: x.Intr}, true
	case Agg:
		y, ok := b.(Agg)
		if !ok || len(x) != len(y) {
			return nil, false
		}
		r := make(Agg, len(x))
		for i := range x {
			xi, yi := x[i], y[i]
			if i == 1 && len(x) == 3 {
				// time.Time: the instant is a 96-bit term once computed, 64-bit in a zero value
				if tx, ok1 := xi.(*Term); ok1 {
					if ty, ok2 := yi.(*Term); ok2 && tx.S.K == KBV && ty.S.K == KBV && tx.S.W != ty.S.W && (tx.S.W == 96 || ty.S.W == 96) {
						if tx.S.W < 96 {
							xi = SExt(tx, 96)
						}
						if ty.S.W < 96 {
							yi = SExt(ty, 96)
						}
					}
				}
			}
			v, ok := mergeValue(c, xi, yi)
			if !ok {
				return nil, false
			}
			r[i] = v
		}
		return r, true
	case Tuple:
		y, ok := b.(Tuple)
		if !ok || len(x) != len(y) {
			return nil, false
		}
		r := make(Tuple, len(x))
		for i := range x {
			v, ok := mergeValue(c, x[i], y[i])
			if !ok {
				return nil, false
			}
			r[i] = v
		}
		return r, true
	case Iter:
		y, ok := b.(Iter)
		if !ok || x.Map != y.Map || x.Pos != y.Pos || len(x.Keys) != len(y.Keys) || x.Str != y.Str {
			return nil, false
		}
		return x, true
	case nil:
		if b == nil {
			return nil, true
		}
		return nil, false
	}
	return nil, false
}

func valIdentical(a, b Value) bool {
	switch x := a.(type) {
	case *Term:
		y, ok := b.(*Term)
		return ok && x == y
	case Ptr:
		y, ok := b.(Ptr)
		return ok && x == y
	case Slice:
		y, ok := b.(Slice)
		return ok && x == y
	case Str:
		y, ok := b.(Str)
		return ok && x == y
	case MapRef:
		y, ok := b.(MapRef)
		return ok && x == y
	case ChanRef:
		y, ok := b.(ChanRef)
		return ok && x == y
	case Iface:
		y, ok := b.(Iface)
		if !ok {
			return false
		}
		if x.T == nil || y.T == nil {
			return x.T == nil && y.T == nil
		}
		return types.Identical(x.T, y.T) && valIdentical(x.V, y.V)
	case Agg:
		y, ok := b.(Agg)
		if !ok || len(x) != len(y) {
			return false
		}
		for i := range x {
			if !valIdentical(x[i], y[i]) {
				return false
			}
		}
		return true
	case Closure:
		y, ok := b.(Closure)
		if !ok || x.Fn != y.Fn || x.Intr != y.Intr || len(x.Binds) != len(y.Binds) {
			return false
		}
		for i := range x.Binds {
			if !valIdentical(x.Binds[i], y.Binds[i]) {
				return false
			}
		}
		return true
	case nil:
		return b == nil
	}
	return false
}

// tryMerge merges b into a under condition c (a if c else b). Returns nil if shapes differ.
func tryMerge(c *Term, a, b *State, prefixLen int) *State {
	if len(a.heap) != len(b.heap) || len(a.threads) != len(b.threads) || a.cur != b.cur {
		return mergeFail(1)
	}
	if len(a.nondets) != len(b.nondets) || len(a.sched) != len(b.sched) {
		return mergeFail(2)
	}
	for i := range a.nondets {
		if a.nondets[i].Var != b.nondets[i].Var || a.nondets[i].N != b.nondets[i].N {
			return mergeFail(3)
		}
	}
	for i := range a.sched {
		if a.sched[i] != b.sched[i] {
			return mergeFail(4)
		}
	}
	if len(a.pools) != len(b.pools) || len(a.lockOwner) != len(b.lockOwner) || len(a.rlockCnt) != len(b.rlockCnt) || len(a.syncMaps) != len(b.syncMaps) {
		return mergeFail(5)
	}
	for k, v := range a.lockOwner {
		if w, ok := b.lockOwner[k]; !ok || w != v {
			return mergeFail(6)
		}
	}
	for k, v := range a.rlockCnt {
		if w, ok := b.rlockCnt[k]; !ok || w != v {
			return mergeFail(7)
		}
	}
	for k, v := range a.syncMaps {
		if w, ok := b.syncMaps[k]; !ok || w != v {
			return mergeFail(8)
		}
	}
	for k, v := range a.pools {
		w, ok := b.pools[k]
		if !ok || len(w) != len(v) {
			return mergeFail(9)
		}
		for i := range v {
			if !valIdentical(v[i], w[i]) {
				return mergeFail(10)
			}
		}
	}
	if len(a.ghost) != len(b.ghost) {
		return mergeFail(11)
	}
	// threads / frames
	for ti := range a.threads {
		ta, tb := a.threads[ti], b.threads[ti]
		if ta.status != tb.status || len(ta.frames) != len(tb.frames) || ta.waitKind != tb.waitKind || ta.waitPtr != tb.waitPtr || ta.waitObj != tb.waitObj {
			return mergeFail(12)
		}
		for fi := range ta.frames {
			fa, fb := ta.frames[fi], tb.frames[fi]
			if fa.fn != fb.fn || fa.block != fb.block || fa.pc != fb.pc || len(fa.defers) != len(fb.defers) || fa.id != fb.id {
				return mergeFail(13)
			}
		}
	}
	m := a.clone()
	for k, va := range a.ghost {
		vb, ok := b.ghost[k]
		if !ok {
			return mergeFail(14)
		}
		mv, ok := mergeValue(c, va, vb)
		if !ok {
			return mergeFail(15)
		}
		m.ghost[k] = mv
	}
	for ti := range a.threads {
		ta, tb := a.threads[ti], b.threads[ti]
		for fi := range ta.frames {
			fa, fb := ta.frames[fi], tb.frames[fi]
			mf := m.threads[ti].frames[fi]
			for i := range fa.env {
				if fa.env[i] == nil && fb.env[i] == nil {
					continue
				}
				if valIdentical(fa.env[i], fb.env[i]) {
					continue
				}
				if fa.env[i] == nil || fb.env[i] == nil {
					// value defined on one arm only: dead after join (SSA dominance) - keep whichever
					if fa.env[i] == nil {
						mf.env[i] = fb.env[i]
					}
					continue
				}
				if db := fa.info.defBlock[i]; db != nil && fa.block != nil && !db.Dominates(fa.block) {
					// defined inside an arm: dead after the join (SSA dominance)
					mf.env[i] = nil
					continue
				}
				v, ok := mergeValue(c, fa.env[i], fb.env[i])
				if !ok {
					return mergeFail(16)
				}
				mf.env[i] = v
			}
			for di := range fa.defers {
				da, db := fa.defers[di], fb.defers[di]
				if len(da.Args) != len(db.Args) {
					return mergeFail(17)
				}
				fv, ok := mergeValue(c, da.Fn, db.Fn)
				if !ok {
					return mergeFail(18)
				}
				nargs := make([]Value, len(da.Args))
				for i := range da.Args {
					v, ok := mergeValue(c, da.Args[i], db.Args[i])
					if !ok {
						return mergeFail(19)
					}
					nargs[i] = v
				}
				mf.defers[di] = Deferred{Fn: fv, Args: nargs, Call: da.Call}
			}
			// visits: take max
			for k, v := range fb.visits {
				if v > mf.visits[k] {
					mf.visits[k] = v
				}
			}
		}
	}
	// heap
	for i := range a.heap {
		oa, ob := a.heap[i], b.heap[i]
		if oa == ob {
			continue
		}
		if oa == nil || ob == nil {
			return mergeFail(20)
		}
		if oa.Kind != ob.Kind || len(oa.Cells) != len(ob.Cells) || len(oa.Entries) != len(ob.Entries) || len(oa.Buf) != len(ob.Buf) || oa.Closed != ob.Closed {
			return mergeFail(21)
		}
		var mo *Object
		for j := range oa.Cells {
			if valIdentical(oa.Cells[j], ob.Cells[j]) {
				continue
			}
			v, ok := mergeValue(c, oa.Cells[j], ob.Cells[j])
			if !ok {
				return mergeFail(22)
			}
			if mo == nil {
				mo = m.wobj(i)
			}
			mo.Cells[j] = v
		}
		for j := range oa.Entries {
			ea, eb := oa.Entries[j], ob.Entries[j]
			k, ok := mergeValue(c, ea.Key, eb.Key)
			if !ok {
				return mergeFail(23)
			}
			v, ok := mergeValue(c, ea.Val, eb.Val)
			if !ok {
				return mergeFail(24)
			}
			if mo == nil {
				mo = m.wobj(i)
			}
			mo.Entries[j] = MapEntry{Key: k, Val: v, Live: Ite(c, ea.Live, eb.Live)}
		}
		for j := range oa.Buf {
			v, ok := mergeValue(c, oa.Buf[j], ob.Buf[j])
			if !ok {
				return mergeFail(25)
			}
			if mo == nil {
				mo = m.wobj(i)
			}
			mo.Buf[j] = v
		}
	}
	// path condition: prefix + ite(c, extraA, extraB)
	ea := And(a.pc[prefixLen:]...)
	eb := And(b.pc[prefixLen:]...)
	m.pc = append([]*Term(nil), a.pc[:prefixLen]...)
	m.facts = map[int]*Term{}
	for k, v := range a.facts {
		if w, ok := b.facts[k]; ok && w == v {
			m.facts[k] = v
		}
	}
	// ea includes c itself, eb includes not c
	m.models = nil
	m.addPC(Or(ea, eb))
	m.models = append(append([]Model(nil), a.models...), b.models...)
	if len(m.models) > 8 {
		m.models = m.models[:8]
	}
	for k := range b.covers {
		m.covers[k] = true
	}
	// observes: keep only if same length; merge
	if len(a.observes) == len(b.observes) {
		for i := range a.observes {
			if a.observes[i].V.S == b.observes[i].V.S {
				m.observes[i].V = Ite(c, a.observes[i].V, b.observes[i].V)
			}
		}
	}
	for k, v := range b.kf {
		if w, ok := m.kf[k]; ok {
			m.kf[k] = Ite(c, w, v)
		} else {
			m.kf[k] = v
		}
	}
	if b.steps > m.steps {
		m.steps = b.steps
	}
	if b.inconclusive != "" && m.inconclusive == "" {
		m.inconclusive = b.inconclusive
	}
	for k, v := range b.atomicCells {
		m.atomicCells[k] = v
	}
	for k, v := range b.plainCells {
		m.plainCells[k] = v
	}
	return m
}

var mergeFailCounts = map[int]int{}

func mergeFail(n int) *State { mergeFailCounts[n]++; return nil }

func (s *State) addModel(m Model) {
	if len(s.models) >= 8 {
		s.models = append(s.models[1:len(s.models):len(s.models)], m)
		return
	}
	s.models = append(s.models[:len(s.models):len(s.models)], m)
}

// setFact records the truth value of boolean term c (and of its negation).
func (s *State) setFact(c *Term, v *Term) {
	s.facts[c.ID] = v
	if c.S.K == KBool {
		s.facts[Not(c).ID] = Not(v)
	}
}

// factOf looks up a known truth value for c (directly or through its negation).
func (s *State) factOf(c *Term) (*Term, bool) {
	if f, ok := s.facts[c.ID]; ok {
		return f, true
	}
	if c.Op == "not" {
		if f, ok := s.facts[c.Args[0].ID]; ok && f.S.K == KBool {
			return Not(f), true
		}
	}
	return nil, false
}
