package main

import (
	"fmt"
	"go/token"
	"go/types"
	"os"
	"sort"
	"strings"

	"golang.org/x/tools/go/ssa"
)

type Violation struct {
	Kind    string            `json:"kind"`
	Msg     string            `json:"msg"`
	Pos     string            `json:"pos"`
	Fn      string            `json:"fn"`
	Nondets []NondetOut       `json:"nondets"`
	Sched   []int             `json:"sched"`
	KF      []string          `json:"known_finding_ids,omitempty"`
	KFOnly  bool              `json:"kf_only"`
	Stack   []string          `json:"stack,omitempty"`
	Extra   map[string]string `json:"extra,omitempty"`
}

type NondetOut struct {
	Kind string   `json:"kind"`
	Val  string   `json:"val,omitempty"`
	Vals []string `json:"vals,omitempty"`
	Site string   `json:"site,omitempty"`
}

type Config struct {
	Unwind      int
	MaxSteps    int
	Merge       bool
	Ints        map[string]int64
	MaxPaths    int
	StopViol    int // stop exploring after this many distinct (not known-finding) violations; 0 = never
	Preempt     int
	Lockset     bool
	KnownKF     map[string]bool
	Trace       bool
	ConcMax     int
	Witnesses   int
	UnwindViol  bool
	Lazy        bool
	NoSlice     bool
	Debug       bool
}

type Engine struct {
	prog    *ssa.Program
	fset    *token.FileSet
	solver  *Solver
	cfg     Config
	infos   map[*ssa.Function]*fnInfo
	globals map[*ssa.Global]int
	root    *State

	violations   []Violation
	stopNow      bool
	violKeys     map[string]bool
	inconclusive []string
	incKeys      map[string]bool
	coversHit    map[string]bool
	coversDecl   map[string]bool
	pathsDone    int
	pathsInfeasible int
	pathsPanic   int
	merges       int
	forks        int
	branchDecisions int
	schedDecisions int
	fnsExecuted  map[string]int
	stubsHit     map[string]int
	assumptions  map[string]int
	witnesses    []Witness
	assertsChecked int
	implicitChecked int
	maxStepsSeen int
	intr         map[string]intrinsic
	errType      types.Type
	initDone     bool
	kfSeen       map[string]bool
	initMode     bool
	cheapDischarged int
	sliceHits    int
	satFullOnSat bool
	redirect     map[string]string
}

type Witness struct {
	Nondets  []NondetOut       `json:"nondets"`
	Sched    []int             `json:"sched"`
	Observes []ObservedOut     `json:"observes"`
}
type ObservedOut struct {
	Label string `json:"label"`
	Val   string `json:"val"`
}

var dumped bool
var abortReasons = map[string]int{}
var forkSites = map[string]int{}
var noMergeArms = map[string]int{}

type forkSignal struct{ states []*State }
type abortPath struct{ reason string } // path ends (infeasible assume, violation recorded, ...)
type unsupported struct{ msg string }

func (e *Engine) info(fn *ssa.Function) *fnInfo {
	if fi, ok := e.infos[fn]; ok {
		return fi
	}
	fi := &fnInfo{idx: map[ssa.Value]int{}}
	var curBlock *ssa.BasicBlock
	add := func(v ssa.Value) {
		fi.idx[v] = fi.n
		fi.n++
		fi.defBlock = append(fi.defBlock, curBlock)
	}
	for _, p := range fn.Params {
		add(p)
	}
	for _, fv := range fn.FreeVars {
		add(fv)
	}
	for _, b := range fn.Blocks {
		curBlock = b
		for _, in := range b.Instrs {
			if v, ok := in.(ssa.Value); ok {
				add(v)
			}
		}
	}
	fi.ipd = postDominators(fn)
	e.infos[fn] = fi
	return fi
}

// postDominators computes immediate post-dominators with a virtual exit.
func postDominators(fn *ssa.Function) map[*ssa.BasicBlock]*ssa.BasicBlock {
	n := len(fn.Blocks)
	if n == 0 {
		return nil
	}
	exit := n
	succs := make([][]int, n+1)
	preds := make([][]int, n+1)
	for _, b := range fn.Blocks {
		if len(b.Succs) == 0 {
			succs[b.Index] = append(succs[b.Index], exit)
			preds[exit] = append(preds[exit], b.Index)
		}
		for _, s := range b.Succs {
			succs[b.Index] = append(succs[b.Index], s.Index)
			preds[s.Index] = append(preds[s.Index], b.Index)
		}
	}
	// reverse postorder on reversed graph from exit
	visited := make([]bool, n+1)
	var order []int
	var dfs func(u int)
	dfs = func(u int) {
		visited[u] = true
		for _, p := range preds[u] {
			if !visited[p] {
				dfs(p)
			}
		}
		order = append(order, u)
	}
	dfs(exit)
	rpoNum := make([]int, n+1)
	for i := range rpoNum {
		rpoNum[i] = -1
	}
	for i, u := range order {
		rpoNum[u] = len(order) - 1 - i
	}
	idom := make([]int, n+1)
	for i := range idom {
		idom[i] = -1
	}
	idom[exit] = exit
	intersect := func(a, b int) int {
		for a != b {
			for rpoNum[a] > rpoNum[b] {
				a = idom[a]
			}
			for rpoNum[b] > rpoNum[a] {
				b = idom[b]
			}
		}
		return a
	}
	changed := true
	for changed {
		changed = false
		for i := len(order) - 1; i >= 0; i-- {
			u := order[i]
			if u == exit {
				continue
			}
			nd := -1
			for _, s := range succs[u] {
				if idom[s] == -1 {
					continue
				}
				if nd == -1 {
					nd = s
				} else {
					nd = intersect(nd, s)
				}
			}
			if nd != -1 && idom[u] != nd {
				idom[u] = nd
				changed = true
			}
		}
	}
	res := map[*ssa.BasicBlock]*ssa.BasicBlock{}
	for _, b := range fn.Blocks {
		d := idom[b.Index]
		if d >= 0 && d != exit {
			res[b] = fn.Blocks[d]
		}
	}
	return res
}

func (e *Engine) pos(in ssa.Instruction) string {
	if in == nil {
		return "?"
	}
	p := in.Pos()
	if !p.IsValid() {
		// search neighbours
		if b := in.Block(); b != nil {
			for _, o := range b.Instrs {
				if o.Pos().IsValid() {
					p = o.Pos()
					break
				}
			}
		}
	}
	if !p.IsValid() {
		return in.Parent().String()
	}
	ps := e.fset.Position(p)
	return fmt.Sprintf("%s:%d", ps.Filename, ps.Line)
}

func (e *Engine) curInstr(s *State) ssa.Instruction {
	f := s.frame()
	if f == nil || f.block == nil || f.pc >= len(f.block.Instrs) {
		return nil
	}
	return f.block.Instrs[f.pc]
}

// ---- solver helpers

func (e *Engine) sat(s *State, extra ...*Term) (Result, Model) {
	if !e.cfg.NoSlice && len(extra) > 0 {
		sl := slicePC(s.pc, extra)
		if len(sl) < len(s.pc) {
			as := append(append([]*Term(nil), sl...), extra...)
			if e.cfg.Debug {
				e.solver.Ctx = e.pos(e.curInstr(s)) + " [sliced]"
			}
			r, m := e.solver.Check(as, true)
			if r != Sat {
				return r, m
			}
			// complete the model with the independent part (needed for counterexamples / model pool)
			e.sliceHits++
			if e.satFullOnSat {
				return e.satFull(s, extra...)
			}
			rest := restOf(s.pc, sl)
			if len(rest) > 0 {
				r2, m2 := e.solver.Check(rest, true)
				if r2 == Unsat {
					return Unsat, nil // pc itself infeasible (lazy arm)
				}
				if r2 == Sat {
					for k, v := range m2 {
						if _, ok := m[k]; !ok {
							m[k] = v
						}
					}
				} else {
					return e.satFull(s, extra...)
				}
			}
			return r, m
		}
	}
	return e.satFull(s, extra...)
}

func restOf(pc, sl []*Term) []*Term {
	in := map[*Term]bool{}
	for _, t := range sl {
		in[t] = true
	}
	var out []*Term
	for _, t := range pc {
		if !in[t] {
			out = append(out, t)
		}
	}
	return out
}

func (e *Engine) satFull(s *State, extra ...*Term) (Result, Model) {
	as := append(append([]*Term(nil), s.pc...), extra...)
	if e.cfg.Debug {
		e.solver.Ctx = e.pos(e.curInstr(s))
		if in := e.curInstr(s); in != nil {
			e.solver.Ctx += fmt.Sprintf(" {%v} steps=%d pc=%d", in, s.steps, len(s.pc))
		}

	}
	return e.solver.Check(as, true)
}

// feasible: is pc ∧ c satisfiable? uses cached model when possible.
func (e *Engine) feasible(s *State, c *Term) Result {
	if c.IsTrue() {
		return Sat
	}
	if c.IsFalse() {
		return Unsat
	}
	if f, ok := s.factOf(c); ok {
		if f.IsTrue() {
			return Sat
		}
		return Unsat
	}
	if cheapFalse(c) {
		return Unsat
	}
	for _, m := range s.models {
		if r := m.Eval(c, map[*Term]*Term{}); r != nil && r.IsTrue() {
			return Sat
		}
	}
	r, m := e.sat(s, c)
	if r == Sat && m != nil {
		s.addModel(m)
	}
	return r
}

// decide returns the truth value of c on this path, forking if both are feasible.
func (e *Engine) decide(s *State, c *Term) bool {
	if c.Const {
		return c.IsTrue()
	}
	if f, ok := s.factOf(c); ok {
		return f.IsTrue()
	}
	rt := e.feasible(s, c)
	var rf Result
	if rt == Unsat {
		if e.feasible(s, Not(c)) == Unsat {
			panic(abortPath{"infeasible"})
		}
		s.setFact(c, TFalse)
		return false
	}
	rf = e.feasible(s, Not(c))
	if rf == Unsat {
		s.setFact(c, TTrue)
		return true
	}
	// fork
	e.forks++
	forkSites["decide@"+e.pos(e.curInstr(s))]++
	o := s.clone()
	s.addPC(c)
	o.addPC(Not(c))
	panic(forkSignal{[]*State{s, o}})
}

// concretize returns a concrete value for t, forking over feasible values (up to max).
func (e *Engine) concretize(s *State, t *Term, why string) uint64 {
	if t.Const {
		return t.CV
	}
	if f, ok := s.facts[t.ID]; ok && f.S == t.S {
		return f.CV
	}
	max := e.cfg.ConcMax
	var vals []*Term
	var excl []*Term
	if fast, ok := e.concretizeFast(s, t, max); ok {
		vals = fast
		goto have
	}
	for len(vals) <= max {
		r, m := e.sat(s, excl...)
		if r == Unsat {
			break
		}
		if r == Unknown {
			e.addInconclusive(s, "concretize: solver unknown ("+why+")")
			panic(abortPath{"unknown"})
		}
		memo := map[*Term]*Term{}
		v := m.Eval(t, memo)
		if v == nil {
			e.addInconclusive(s, "concretize: cannot evaluate ("+why+")")
			panic(abortPath{"eval"})
		}
		vals = append(vals, v)
		excl = append(excl, Not(Eq(t, v)))
	}
have:
	if len(vals) > max {
		e.addInconclusive(s, fmt.Sprintf("concretize: more than %d values (%s) at %s", max, why, e.pos(e.curInstr(s))))
		panic(abortPath{"concretize"})
	}
	if len(vals) == 0 {
		panic(abortPath{"infeasible"})
	}
	if len(vals) == 1 {
		s.facts[t.ID] = vals[0]
		s.addPC(Eq(t, vals[0]))
		return vals[0].CV
	}
	e.forks++
	forkSites["concretize("+why+")@"+e.pos(e.curInstr(s))]++
	sort.Slice(vals, func(i, j int) bool { return vals[i].CV < vals[j].CV })
	var out []*State
	for i, v := range vals {
		st := s
		if i < len(vals)-1 {
			st = s.clone()
		}
		st.facts[t.ID] = v
		st.addPC(Eq(t, v))
		out = append(out, st)
	}
	panic(forkSignal{out})
}

func (e *Engine) addInconclusive(s *State, msg string) {
	if !e.incKeys[msg] {
		e.incKeys[msg] = true
		e.inconclusive = append(e.inconclusive, msg)
	}
	if s != nil && s.inconclusive == "" {
		s.inconclusive = msg
	}
}

func (e *Engine) nondetOut(s *State, m Model) []NondetOut {
	memo := map[*Term]*Term{}
	var out []NondetOut
	tv := func(t *Term) string {
		v := m.Eval(t, memo)
		if v == nil {
			if mv, ok := m[t]; ok {
				v = mv
			}
		}
		if v == nil {
			return "0"
		}
		switch v.S.K {
		case KBool:
			if v.IsTrue() {
				return "1"
			}
			return "0"
		case KFP:
			return fmt.Sprintf("f:%d", v.CV)
		}
		return v.bigVal().String()
	}
	for _, n := range s.nondets {
		o := NondetOut{Kind: n.Kind, Site: n.Site}
		if n.Vars != nil || n.Kind == "bytes" {
			for _, v := range n.Vars {
				o.Vals = append(o.Vals, tv(v))
			}
		} else {
			o.Val = tv(n.Var)
		}
		out = append(out, o)
	}
	return out
}

func (e *Engine) stack(s *State) []string {
	var out []string
	t := s.thread()
	for i := len(t.frames) - 1; i >= 0; i-- {
		f := t.frames[i]
		var in ssa.Instruction
		if f.block != nil && f.pc < len(f.block.Instrs) {
			in = f.block.Instrs[f.pc]
		}
		out = append(out, f.fn.String()+" @ "+e.pos(in))
	}
	return out
}

// report records a violation reachable under model m.
func (e *Engine) report(s *State, kind, msg string, m Model, viol *Term) {
	in := e.curInstr(s)
	pos := e.pos(in)
	// known findings: split into KF-explained and not
	key := kind + "|" + pos + "|" + msg
	var kfIDs []string
	for id := range s.kf {
		kfIDs = append(kfIDs, id)
	}
	sort.Strings(kfIDs)
	if len(kfIDs) > 0 && viol != nil {
		// is there a violation not explained by any known-finding predicate?
		var nots []*Term
		for _, id := range kfIDs {
			if e.cfg.KnownKF[id] {
				nots = append(nots, Not(s.kf[id]))
			}
		}
		if len(nots) > 0 {
			r, m2 := e.sat(s, append([]*Term{viol}, nots...)...)
			if r == Sat {
				m = m2 // unexplained violation
				kfIDs = nil
			} else if r == Unknown {
				e.addInconclusive(s, "known-finding split: solver unknown at "+pos)
			} else {
				// explained: which predicates hold in model?
				var hold []string
				memo := map[*Term]*Term{}
				for _, id := range kfIDs {
					if !e.cfg.KnownKF[id] {
						continue
					}
					if v := m.Eval(s.kf[id], memo); v != nil && v.IsTrue() {
						hold = append(hold, id)
					}
				}
				if len(hold) == 0 {
					// model did not pin one; find one
					for _, id := range kfIDs {
						if e.cfg.KnownKF[id] {
							if r, m3 := e.sat(s, viol, s.kf[id]); r == Sat {
								hold = append(hold, id)
								m = m3
								break
							}
						}
					}
				}
				kfIDs = hold
				key += "|KF:" + strings.Join(hold, ",")
				if e.violKeys[key] {
					return
				}
				e.violKeys[key] = true
				for _, id := range hold {
					e.kfSeen[id] = true
				}
				e.violations = append(e.violations, Violation{Kind: kind, Msg: msg, Pos: pos, Fn: s.frame().fn.String(),
					Nondets: e.nondetOut(s, m), Sched: append([]int(nil), s.sched...), KF: hold, KFOnly: true, Stack: e.stack(s)})
				return
			}
		} else {
			kfIDs = nil
		}
	} else {
		kfIDs = nil
	}
	if e.violKeys[key] {
		return
	}
	e.violKeys[key] = true
	fn := ""
	if s.frame() != nil {
		fn = s.frame().fn.String()
	}
	e.violations = append(e.violations, Violation{Kind: kind, Msg: msg, Pos: pos, Fn: fn,
		Nondets: e.nondetOut(s, m), Sched: append([]int(nil), s.sched...), Stack: e.stack(s)})
	if e.cfg.StopViol > 0 && !e.initMode {
		n := 0
		for _, v := range e.violations {
			if !v.KFOnly {
				n++
			}
		}
		if n >= e.cfg.StopViol {
			e.stopNow = true
		}
	}
	if e.cfg.Trace {
		fmt.Fprintf(os.Stderr, "VIOLATION %s %s at %s\n", kind, msg, pos)
	}
}

// check is an implicit/explicit assertion: cond must hold on all inputs of this path.
// Path continues under cond.
func (e *Engine) check(s *State, cond *Term, kind, msg string) {
	if cond.IsTrue() {
		return
	}
	if f, ok := s.factOf(cond); ok && f.IsTrue() {
		return
	}
	if cheapTrue(cond) {
		e.cheapDischarged++
		return
	}
	if kind == "assert" {
		e.assertsChecked++
	} else {
		e.implicitChecked++
	}
	neg := Not(cond)
	r, m := e.sat(s, neg)
	switch r {
	case Unsat:
		s.setFact(cond, TTrue)
		return
	case Unknown:
		e.addInconclusive(s, fmt.Sprintf("solver unknown on %s (%s) at %s", kind, msg, e.pos(e.curInstr(s))))
	case Sat:
		e.report(s, kind, msg, m, neg)
	}
	// continue under cond if feasible
	if cond.IsFalse() {
		panic(abortPath{"violation"})
	}
	rc := e.feasible(s, cond)
	if rc == Unsat {
		panic(abortPath{"violation"})
	}
	s.addPC(cond)
}

// fail: definite violation on this path (pc is satisfiable by invariant).
func (e *Engine) fail(s *State, kind, msg string) {
	r, m := e.sat(s)
	if r == Sat {
		e.report(s, kind, msg, m, TTrue)
	} else if r == Unknown {
		e.addInconclusive(s, "solver unknown on path feasibility at "+e.pos(e.curInstr(s)))
	} else {
		panic(abortPath{"infeasible"}) // speculatively executed arm
	}
	panic(abortPath{"violation"})
}

func (e *Engine) unsupportedf(format string, args ...interface{}) {
	panic(unsupported{fmt.Sprintf(format, args...)})
}

// ---- main exploration loop

type stopPoint struct {
	thread int
	frame  int
	block  *ssa.BasicBlock
}

func (e *Engine) atStop(s *State, st *stopPoint) bool {
	if st == nil {
		return false
	}
	if s.cur != st.thread {
		return false
	}
	f := s.frame()
	return f != nil && f.id == st.frame && f.block == st.block && f.pc == firstNonPhi(f.block)
}

func firstNonPhi(b *ssa.BasicBlock) int {
	for i, in := range b.Instrs {
		if _, ok := in.(*ssa.Phi); !ok {
			return i
		}
	}
	return len(b.Instrs)
}

type stepKind int

const (
	stepCont stepKind = iota
	stepEnd
	stepFork
	stepBranch
)

type stepResult struct {
	kind   stepKind
	states []*State
	// branch
	cond *Term
	lazy bool
}

func (e *Engine) run(s *State, stop *stopPoint, depth int) []*State {
	work := []*State{s}
	var out []*State
	for len(work) > 0 {
		s := work[len(work)-1]
		work = work[:len(work)-1]
		if e.stopNow {
			return out
		}
		if e.cfg.MaxPaths > 0 && e.pathsDone+e.pathsPanic > e.cfg.MaxPaths {
			e.addInconclusive(nil, "max paths exceeded")
			return out
		}
	inner:
		for {
			if e.atStop(s, stop) {
				out = append(out, s)
				break inner
			}
			r := e.step(s)
			switch r.kind {
			case stepCont:
				continue
			case stepEnd:
				break inner
			case stepFork:
				work = append(work, r.states...)
				break inner
			case stepBranch:
				// symbolic If with both sides feasible; s is positioned at the If instruction.
				f := s.frame()
				ifi := f.block.Instrs[f.pc].(*ssa.If)
				_ = ifi
				p := f.info.ipd[f.block]
				prefix := len(s.pc)
				e.branchDecisions++
				sF := s.clone()
				sT := s
				sT.addPC(r.cond)
				sF.addPC(Not(r.cond))
				if e.cfg.Merge && p != nil && depth < 200 {
					sp := &stopPoint{thread: s.cur, frame: f.id, block: p}
					rT := e.run(sT, sp, depth+1)
					rF := e.run(sF, sp, depth+1)
					if len(rT) == 1 && len(rF) == 1 {
						if m := tryMerge(r.cond, rT[0], rF[0], prefix); m != nil {
							e.merges++
							work = append(work, m)
							break inner
						}
					}
					noMergeArms[fmt.Sprintf("%s T=%d F=%d", e.pos(ifi), len(rT), len(rF))]++
					for _, st := range append(rF, rT...) {
						if r.lazy {
							if rr, m := e.sat(st); rr == Unsat {
								e.pathsInfeasible++
								continue
							} else if rr == Sat && m != nil {
								st.addModel(m)
							}
						}
						work = append(work, st)
					}
				} else {
					for _, st := range []*State{sF, sT} {
						if r.lazy {
							if rr, _ := e.sat(st); rr == Unsat {
								e.pathsInfeasible++
								continue
							}
						}
						work = append(work, st)
					}
				}
				break inner
			}
		}
	}
	return out
}

func (e *Engine) takeBranch(s *State, which bool) {
	f := s.frame()
	idx := 0
	if !which {
		idx = 1
	}
	e.jump(s, f, f.block.Succs[idx])
}

func (e *Engine) jump(s *State, f *Frame, to *ssa.BasicBlock) {
	from := f.block
	f.prev = from
	f.block = to
	f.pc = 0
	f.visits[to.Index]++
	if f.visits[to.Index] > e.cfg.Unwind {
		if r, _ := e.sat(s); r == Unsat {
			panic(abortPath{"infeasible"})
		}
		if e.cfg.UnwindViol {
			e.fail(s, "unwind", fmt.Sprintf("loop bound %d exceeded in %s", e.cfg.Unwind, f.fn.String()))
		}
		e.addInconclusive(s, fmt.Sprintf("unwind bound %d exceeded in %s at %s", e.cfg.Unwind, f.fn.String(), e.pos(to.Instrs[0])))
		panic(abortPath{"unwind"})
	}
	// evaluate phis simultaneously
	pi := -1
	for i, p := range to.Preds {
		if p == from {
			pi = i
			break
		}
	}
	var vals []Value
	n := 0
	for _, in := range to.Instrs {
		phi, ok := in.(*ssa.Phi)
		if !ok {
			break
		}
		vals = append(vals, e.get(f, phi.Edges[pi]))
		n++
	}
	for i := 0; i < n; i++ {
		f.env[f.info.idx[to.Instrs[i].(*ssa.Phi)]] = vals[i]
	}
	f.pc = n
}

// step executes one instruction of the current thread.
func (e *Engine) step(s *State) (res stepResult) {
	defer func() {
		if r := recover(); r != nil {
			switch x := r.(type) {
			case forkSignal:
				res = stepResult{kind: stepFork, states: x.states}
			case abortPath:
				abortReasons[x.reason+"@"+e.pos(e.curInstr(s))]++
				if x.reason == "infeasible" || x.reason == "assume" {
					e.pathsInfeasible++
				} else {
					e.pathsPanic++
				}
				res = stepResult{kind: stepEnd}
			case unsupported:
				e.addInconclusive(s, "unsupported: "+x.msg+" at "+e.pos(e.curInstr(s)))
				e.pathsPanic++
				res = stepResult{kind: stepEnd}
			default:
				in := e.curInstr(s)
				fmt.Fprintf(os.Stderr, "engine panic at %s (%v): %v\n", e.pos(in), in, r)
				panic(r)
			}
		}
	}()
	s.steps++
	if s.steps > e.cfg.MaxSteps {
		if r, _ := e.sat(s); r == Unsat {
			e.pathsInfeasible++
			return stepResult{kind: stepEnd}
		}
		e.addInconclusive(s, "max steps exceeded")
		return stepResult{kind: stepEnd}
	}
	t := s.thread()
	if t.status != TRunnable || len(t.frames) == 0 {
		if !e.schedule(s) {
			return stepResult{kind: stepEnd}
		}
		return stepResult{kind: stepCont}
	}
	f := t.top()
	in := f.block.Instrs[f.pc]
	if e.cfg.Trace {
		fmt.Fprintf(os.Stderr, "[s%d t%d] %s: %v\n", s.id, s.cur, f.fn.Name(), in)
	}
	if ifi, ok := in.(*ssa.If); ok {
		c := e.get(f, ifi.Cond).(*Term)
		if c.Const {
			e.takeBranch(s, c.IsTrue())
			return stepResult{kind: stepCont}
		}
		if fct, ok := s.factOf(c); ok {
			e.takeBranch(s, fct.IsTrue())
			return stepResult{kind: stepCont}
		}
		if e.cfg.Merge && e.cfg.Lazy && !e.loopControlling(f.info, f.block) {
			return stepResult{kind: stepBranch, cond: c, lazy: true}
		}
		rt := e.feasible(s, c)
		if rt == Unsat {
			if e.feasible(s, Not(c)) == Unsat {
				e.pathsInfeasible++
				return stepResult{kind: stepEnd} // state itself is infeasible (lazy arm)
			}
			s.setFact(c, TFalse)
			e.takeBranch(s, false)
			return stepResult{kind: stepCont}
		}
		rf := e.feasible(s, Not(c))
		if rf == Unsat {
			s.setFact(c, TTrue)
			e.takeBranch(s, true)
			return stepResult{kind: stepCont}
		}
		return stepResult{kind: stepBranch, cond: c}
	}
	return e.exec(s, t, f, in)
}

func (e *Engine) finishPath(s *State) {
	e.pathsDone++
	if s.steps > e.maxStepsSeen {
		e.maxStepsSeen = s.steps
	}
	if len(e.witnesses) < e.cfg.Witnesses {
		r, m := e.sat(s)
		if r == Sat {
			w := Witness{Nondets: e.nondetOut(s, m), Sched: append([]int(nil), s.sched...)}
			memo := map[*Term]*Term{}
			for _, o := range s.observes {
				v := m.Eval(o.V, memo)
				val := "?"
				if v != nil {
					if v.S.K == KBool {
						val = "0"
						if v.IsTrue() {
							val = "1"
						}
					} else if v.S.K == KFP {
						val = fmt.Sprintf("f:%d", v.CV)
					} else {
						val = v.bigVal().String()
					}
				}
				w.Observes = append(w.Observes, ObservedOut{o.Label, val})
			}
			e.witnesses = append(e.witnesses, w)
		}
	}
}

func (e *Engine) get(f *Frame, v ssa.Value) Value {
	switch x := v.(type) {
	case *ssa.Const:
		return e.constVal(x)
	case *ssa.Function:
		return Closure{Fn: x}
	case *ssa.Global:
		return Ptr{Obj: e.globals[x]}
	case *ssa.Builtin:
		return Closure{Intr: "builtin:" + x.Name()}
	}
	i, ok := f.info.idx[v]
	if !ok {
		panic(fmt.Sprintf("get: unknown value %v (%T) in %s", v, v, f.fn))
	}
	r := f.env[i]
	if r == nil {
		panic(fmt.Sprintf("get: unset value %s = %v in %s", v.Name(), v, f.fn))
	}
	return r
}

func (e *Engine) set(f *Frame, v ssa.Value, val Value) {
	f.env[f.info.idx[v]] = val
}

func (e *Engine) newFrame(s *State, fn *ssa.Function, args []Value, binds []Value, result ssa.Value) *Frame {
	fi := e.info(fn)
	s.nextFrame++
	f := &Frame{id: s.nextFrame, fn: fn, info: fi, env: make([]Value, fi.n), block: fn.Blocks[0], result: result, visits: map[int]int{}}
	if len(args) != len(fn.Params) {
		panic(fmt.Sprintf("call %s: %d args for %d params", fn, len(args), len(fn.Params)))
	}
	for i, p := range fn.Params {
		f.env[fi.idx[p]] = args[i]
	}
	for i, fv := range fn.FreeVars {
		f.env[fi.idx[fv]] = binds[i]
	}
	e.fnsExecuted[fn.String()]++
	return f
}

// loopControlling: can the If block be reached again from one of its successors without
// passing through its immediate post-dominator? (then feasibility pruning bounds the unrolling)
func (e *Engine) loopControlling(fi *fnInfo, b *ssa.BasicBlock) bool {
	if fi.loopCtl == nil {
		fi.loopCtl = map[*ssa.BasicBlock]bool{}
	}
	if v, ok := fi.loopCtl[b]; ok {
		return v
	}
	p := fi.ipd[b]
	res := false
	if p == nil {
		res = true
	} else {
		seen := map[*ssa.BasicBlock]bool{p: true}
		var st []*ssa.BasicBlock
		st = append(st, b.Succs...)
		for len(st) > 0 && !res {
			x := st[len(st)-1]
			st = st[:len(st)-1]
			if x == b {
				res = true
				break
			}
			if seen[x] {
				continue
			}
			seen[x] = true
			st = append(st, x.Succs...)
		}
	}
	fi.loopCtl[b] = res
	return res
}

// concretizeFast: t depends on a single narrow variable that occurs in the path condition only in
// conjuncts over that variable alone: its feasible values are found by evaluation, without the solver.
func (e *Engine) concretizeFast(s *State, t *Term, max int) ([]*Term, bool) {
	vs := varsOfTerm(t)
	if len(vs) != 1 || vs[0] < 0 {
		return nil, false
	}
	v := TF.all[vs[0]]
	if v.S.K != KBV || v.S.W > 8 {
		return nil, false
	}
	var own []*Term
	for _, c := range s.pc {
		cv := varsOfTerm(c)
		has := false
		for _, x := range cv {
			if x == v.ID {
				has = true
			}
		}
		if !has {
			continue
		}
		if len(cv) != 1 {
			return nil, false
		}
		own = append(own, c)
	}
	seen := map[*Term]bool{}
	var out []*Term
	for val := uint64(0); val < (uint64(1) << uint(v.S.W)); val++ {
		m := Model{v: BVConst(v.S.W, val)}
		memo := map[*Term]*Term{}
		ok := true
		for _, c := range own {
			r := m.Eval(c, memo)
			if r == nil {
				return nil, false
			}
			if !r.IsTrue() {
				ok = false
				break
			}
		}
		if !ok {
			continue
		}
		tv := m.Eval(t, memo)
		if tv == nil {
			return nil, false
		}
		if !seen[tv] {
			seen[tv] = true
			out = append(out, tv)
			if len(out) > max {
				return out, true
			}
		}
	}
	return out, true
}
