package main

import (
	"fmt"
	"go/types"
	"math/big"
	"strings"

	"golang.org/x/tools/go/ssa"
)

type intrinsic func(e *Engine, s *State, t *Thread, f *Frame, args []Value, result ssa.Value) (Value, bool)

const rtPkg = "github.com/pion/interceptor/internal/verifrt"

var unixOffset96 = func() *Term {
	// nanoseconds from Jan 1 year 1 to Jan 1 1970
	v := new(big.Int).Mul(big.NewInt(62135596800), big.NewInt(1000000000))
	return BVConstBig(96, v)
}()

func timeTerm(v Value) *Term {
	a := v.(Agg)
	t := a[1].(*Term)
	if t.S.W < 96 {
		return SExt(t, 96)
	}
	return t
}

func mkTime(t *Term) Value {
	return Agg{BVConst(64, 0), t, Ptr{}}
}

func sat64(d *Term) *Term {
	// saturate signed 96-bit to int64
	maxv := BVConstBig(96, new(big.Int).SetUint64(0x7fffffffffffffff))
	minv := BVConstBig(96, new(big.Int).Neg(new(big.Int).Lsh(big.NewInt(1), 63)))
	lo := Extract(63, 0, d)
	return Ite(BVSlt(maxv, d), BVConst(64, 0x7fffffffffffffff), Ite(BVSlt(d, minv), BVConst(64, 0x8000000000000000), lo))
}

func (e *Engine) nondet(s *State, kind string, w int) *Term {
	v := NewVar(kind, SBV(w))
	s.nondets = append(s.nondets, NondetRec{Kind: kind, Var: v, Site: e.pos(e.curInstr(s))})
	return v
}

func ret(v Value) (Value, bool) { return v, true }

func (e *Engine) setupIntrinsics() {
	I := map[string]intrinsic{}
	e.intr = I
	rt := func(n string) string { return rtPkg + "." + n }

	for _, d := range []struct {
		n string
		w int
	}{{"NondetU8", 8}, {"NondetU16", 16}, {"NondetU32", 32}, {"NondetU64", 64}, {"NondetI64", 64}} {
		d := d
		I[rt(d.n)] = func(e *Engine, s *State, t *Thread, f *Frame, args []Value, _ ssa.Value) (Value, bool) {
			return ret(e.nondet(s, strings.ToLower(d.n[6:]), d.w))
		}
	}
	I[rt("NondetBool")] = func(e *Engine, s *State, t *Thread, f *Frame, args []Value, _ ssa.Value) (Value, bool) {
		v := NewVar("bool", SBool)
		s.nondets = append(s.nondets, NondetRec{Kind: "bool", Var: v, Site: e.pos(e.curInstr(s))})
		return ret(v)
	}
	I[rt("NondetF64")] = func(e *Engine, s *State, t *Thread, f *Frame, args []Value, _ ssa.Value) (Value, bool) {
		v := NewVar("f64", SFP)
		s.nondets = append(s.nondets, NondetRec{Kind: "f64", Var: v, Site: e.pos(e.curInstr(s))})
		return ret(v)
	}
	I[rt("NondetInt")] = func(e *Engine, s *State, t *Thread, f *Frame, args []Value, _ ssa.Value) (Value, bool) {
		lo, hi := args[0].(*Term), args[1].(*Term)
		if lo.Const && hi.Const && lo == hi {
			s.nondets = append(s.nondets, NondetRec{Kind: "int", Var: lo, Site: e.pos(e.curInstr(s))})
			return ret(lo)
		}
		var v *Term
		// narrow encoding when the range is small and constant: lo + zext(k bits)
		if lo.Const && hi.Const && hi.S64() >= lo.S64() {
			span := uint64(hi.S64() - lo.S64())
			bits := 1
			for (uint64(1)<<uint(bits))-1 < span {
				bits++
			}
			if bits < 63 {
				nv := NewVar("int", SBV(bits))
				v = BVAdd(lo, ZExt(nv, 64))
				varBounds[nv] = [2]uint64{0, span}
				s.nondets = append(s.nondets, NondetRec{Kind: "int", Var: v, Site: e.pos(e.curInstr(s))})
				s.addPC(BVUle(nv, BVConst(bits, span)))
				return ret(v)
			}
		}
		v = NewVar("int", SBV(64))
		s.nondets = append(s.nondets, NondetRec{Kind: "int", Var: v, Site: e.pos(e.curInstr(s))})
		s.addPC(And(BVSle(lo, v), BVSle(v, hi)))
		if e.feasible(s, TTrue) == Unsat {
			panic(abortPath{"assume"})
		}
		return ret(v)
	}
	I[rt("NondetBytes")] = func(e *Engine, s *State, t *Thread, f *Frame, args []Value, res ssa.Value) (Value, bool) {
		n := int(e.concretize(s, args[0].(*Term), "NondetBytes length"))
		bt := types.Typ[types.Uint8]
		id := s.allocMem(bt, n, "NondetBytes")
		o := s.wobj(id)
		rec := NondetRec{Kind: "bytes", N: n, Site: e.pos(e.curInstr(s))}
		for i := 0; i < n; i++ {
			v := NewVar("byte", SBV(8))
			o.Cells[i] = v
			rec.Vars = append(rec.Vars, v)
		}
		s.nondets = append(s.nondets, rec)
		return ret(Slice{Obj: id, Len: i64(int64(n)), Cap: i64(int64(n))})
	}
	I[rt("Assume")] = func(e *Engine, s *State, t *Thread, f *Frame, args []Value, _ ssa.Value) (Value, bool) {
		c := args[0].(*Term)
		if e.feasible(s, c) == Unsat {
			panic(abortPath{"assume"})
		}
		s.addPC(c)
		return ret(nil)
	}
	I[rt("Assert")] = func(e *Engine, s *State, t *Thread, f *Frame, args []Value, _ ssa.Value) (Value, bool) {
		e.check(s, args[0].(*Term), "assert", args[1].(Str).S)
		return ret(nil)
	}
	I[rt("Cover")] = func(e *Engine, s *State, t *Thread, f *Frame, args []Value, _ ssa.Value) (Value, bool) {
		l := args[0].(Str).S
		if !e.coversHit[l] {
			if r, _ := e.sat(s); r == Sat {
				e.coversHit[l] = true
				e.coversDecl[l] = true
			}
		}
		s.covers[l] = true
		return ret(nil)
	}
	I[rt("DeclareCover")] = func(e *Engine, s *State, t *Thread, f *Frame, args []Value, _ ssa.Value) (Value, bool) {
		e.coversDecl[args[0].(Str).S] = true
		return ret(nil)
	}
	I[rt("Observe")] = func(e *Engine, s *State, t *Thread, f *Frame, args []Value, _ ssa.Value) (Value, bool) {
		s.observes = append(s.observes, Observed{Label: args[0].(Str).S, V: args[1].(*Term)})
		return ret(nil)
	}
	I[rt("KnownFinding")] = func(e *Engine, s *State, t *Thread, f *Frame, args []Value, _ ssa.Value) (Value, bool) {
		id := args[0].(Str).S
		c := args[1].(*Term)
		if old, ok := s.kf[id]; ok {
			c = Or(old, c)
		}
		s.kf[id] = c
		return ret(nil)
	}
	I[rt("Yield")] = func(e *Engine, s *State, t *Thread, f *Frame, args []Value, _ ssa.Value) (Value, bool) {
		// let others run until quiescent, then continue after this call
		others := false
		for _, o := range s.threads {
			if o != t && len(o.frames) > 0 && (o.status == TRunnable || o.status == TBlocked && e.canProceed(s, o)) {
				others = true
			}
		}
		if !others {
			return ret(nil)
		}
		f.pc++ // continue after the call when resumed
		e.yield(s, t)
		return nil, false
	}
	I[rt("FireTickers")] = func(e *Engine, s *State, t *Thread, f *Frame, args []Value, _ ssa.Value) (Value, bool) {
		now := args[0]
		for _, ch := range s.tickers {
			o := s.wobj(ch)
			if len(o.Buf) < o.ChCap {
				o.Buf = append(o.Buf, now)
			}
		}
		return ret(nil)
	}
	I[rt("LiveThreads")] = func(e *Engine, s *State, t *Thread, f *Frame, args []Value, _ ssa.Value) (Value, bool) {
		n := 0
		for _, o := range s.threads {
			if o != t && o.status != TDone && len(o.frames) > 0 {
				n++
			}
		}
		return ret(i64(int64(n)))
	}
	I[rt("Param")] = func(e *Engine, s *State, t *Thread, f *Frame, args []Value, _ ssa.Value) (Value, bool) {
		if v, ok := paramInts[args[0].(Str).S]; ok {
			return ret(i64(v))
		}
		return ret(args[1])
	}
	I[rt("Concretize")] = func(e *Engine, s *State, t *Thread, f *Frame, args []Value, _ ssa.Value) (Value, bool) {
		x := args[0].(*Term)
		v := e.concretize(s, x, "vr.Concretize")
		return ret(BVConst(64, v))
	}
	I[rt("Symbolic")] = func(e *Engine, s *State, t *Thread, f *Frame, args []Value, _ ssa.Value) (Value, bool) {
		return ret(TTrue)
	}
	I[rt("AllocCount")] = func(e *Engine, s *State, t *Thread, f *Frame, args []Value, _ ssa.Value) (Value, bool) {
		return ret(i64(int64(len(s.allocLog))))
	}
	I[rt("UF64")] = func(e *Engine, s *State, t *Thread, f *Frame, args []Value, _ ssa.Value) (Value, bool) {
		return ret(UFApp("uf_"+args[0].(Str).S, SBV(64), args[1].(*Term)))
	}

	// ---- time
	I["time.Now"] = func(e *Engine, s *State, t *Thread, f *Frame, args []Value, _ ssa.Value) (Value, bool) {
		if paramInts["concretenow"] != 0 {
			// deterministic clock: 2026-01-01 plus 1 ms per call
			if s.now == nil {
				base := new(big.Int).Mul(big.NewInt(62135596800+1767225600), big.NewInt(1000000000))
				s.now = BVConstBig(96, base)
			}
			s.now = BVAdd(s.now, BVConst(96, 1000000))
			return ret(mkTime(s.now))
		}
		d := NewVar("nowdelta", SBV(40))
		s.nondets = append(s.nondets, NondetRec{Kind: "now", Var: d, Site: e.pos(e.curInstr(s))})
		if s.now == nil {
			// 2026-01-01T00:00:00Z
			base := new(big.Int).Mul(big.NewInt(62135596800+1767225600), big.NewInt(1000000000))
			s.now = BVConstBig(96, base)
		}
		s.now = BVAdd(s.now, ZExt(d, 96))
		return ret(mkTime(s.now))
	}
	I["time.Since"] = func(e *Engine, s *State, t *Thread, f *Frame, args []Value, r ssa.Value) (Value, bool) {
		nv, _ := I["time.Now"](e, s, t, f, nil, nil)
		return ret(sat64(BVSub(timeTerm(nv), timeTerm(args[0]))))
	}
	I["(time.Time).Add"] = func(e *Engine, s *State, t *Thread, f *Frame, args []Value, _ ssa.Value) (Value, bool) {
		return ret(mkTime(BVAdd(timeTerm(args[0]), SExt(args[1].(*Term), 96))))
	}
	I["(time.Time).Sub"] = func(e *Engine, s *State, t *Thread, f *Frame, args []Value, _ ssa.Value) (Value, bool) {
		return ret(sat64(BVSub(timeTerm(args[0]), timeTerm(args[1]))))
	}
	I["(time.Time).Before"] = func(e *Engine, s *State, t *Thread, f *Frame, args []Value, _ ssa.Value) (Value, bool) {
		return ret(BVSlt(timeTerm(args[0]), timeTerm(args[1])))
	}
	I["(time.Time).After"] = func(e *Engine, s *State, t *Thread, f *Frame, args []Value, _ ssa.Value) (Value, bool) {
		return ret(BVSlt(timeTerm(args[1]), timeTerm(args[0])))
	}
	I["(time.Time).Equal"] = func(e *Engine, s *State, t *Thread, f *Frame, args []Value, _ ssa.Value) (Value, bool) {
		return ret(Eq(timeTerm(args[0]), timeTerm(args[1])))
	}
	I["(time.Time).Compare"] = func(e *Engine, s *State, t *Thread, f *Frame, args []Value, _ ssa.Value) (Value, bool) {
		a, b := timeTerm(args[0]), timeTerm(args[1])
		return ret(Ite(BVSlt(a, b), i64(-1), Ite(BVSlt(b, a), i64(1), i64(0))))
	}
	I["(time.Time).IsZero"] = func(e *Engine, s *State, t *Thread, f *Frame, args []Value, _ ssa.Value) (Value, bool) {
		return ret(Eq(timeTerm(args[0]), BVConst(96, 0)))
	}
	I["(time.Time).UnixNano"] = func(e *Engine, s *State, t *Thread, f *Frame, args []Value, _ ssa.Value) (Value, bool) {
		return ret(Extract(63, 0, BVSub(timeTerm(args[0]), unixOffset96)))
	}
	I["(time.Time).UnixMicro"] = func(e *Engine, s *State, t *Thread, f *Frame, args []Value, _ ssa.Value) (Value, bool) {
		d := BVSub(timeTerm(args[0]), unixOffset96)
		return ret(Extract(63, 0, floorDiv96(d, 1000)))
	}
	I["(time.Time).UnixMilli"] = func(e *Engine, s *State, t *Thread, f *Frame, args []Value, _ ssa.Value) (Value, bool) {
		d := BVSub(timeTerm(args[0]), unixOffset96)
		return ret(Extract(63, 0, floorDiv96(d, 1000000)))
	}
	I["(time.Time).Unix"] = func(e *Engine, s *State, t *Thread, f *Frame, args []Value, _ ssa.Value) (Value, bool) {
		d := BVSub(timeTerm(args[0]), unixOffset96)
		return ret(Extract(63, 0, floorDiv96(d, 1000000000)))
	}
	I["time.Unix"] = func(e *Engine, s *State, t *Thread, f *Frame, args []Value, _ ssa.Value) (Value, bool) {
		sec, nsec := args[0].(*Term), args[1].(*Term)
		v := BVAdd(unixOffset96, BVAdd(BVMul(SExt(sec, 96), BVConst(96, 1000000000)), SExt(nsec, 96)))
		return ret(mkTime(v))
	}
	I["time.UnixMicro"] = func(e *Engine, s *State, t *Thread, f *Frame, args []Value, _ ssa.Value) (Value, bool) {
		v := BVAdd(unixOffset96, BVMul(SExt(args[0].(*Term), 96), BVConst(96, 1000)))
		return ret(mkTime(v))
	}
	I["time.UnixMilli"] = func(e *Engine, s *State, t *Thread, f *Frame, args []Value, _ ssa.Value) (Value, bool) {
		v := BVAdd(unixOffset96, BVMul(SExt(args[0].(*Term), 96), BVConst(96, 1000000)))
		return ret(mkTime(v))
	}
	I["(time.Time).String"] = func(e *Engine, s *State, t *Thread, f *Frame, args []Value, _ ssa.Value) (Value, bool) {
		return ret(Str{S: "<time>", Sym: true})
	}
	I["(time.Duration).String"] = func(e *Engine, s *State, t *Thread, f *Frame, args []Value, _ ssa.Value) (Value, bool) {
		return ret(Str{S: "<duration>", Sym: true})
	}
	if paramInts["ufseconds"] != 0 {
		I["(time.Duration).Seconds"] = func(e *Engine, s *State, t *Thread, f *Frame, args []Value, _ ssa.Value) (Value, bool) {
			r := UFApp("uf_seconds", SFP, args[0].(*Term))
			// contract of the uninterpreted symbol: a finite number of magnitude <= 2^34, sign of the duration
			d := args[0].(*Term)
			s.addPC(And(Not(FPIsNaN(r)), Not(FPIsInf(r)), FPLe(FPAbs(r), FPConst(17179869184.0)),
				Eq(BVSlt(d, BVConst(64, 0)), FPLt(r, FPConst(0))), Eq(Eq(d, BVConst(64, 0)), FPEq(r, FPConst(0)))))
			return ret(r)
		}
	}
	I["time.Sleep"] = func(e *Engine, s *State, t *Thread, f *Frame, args []Value, _ ssa.Value) (Value, bool) {
		return ret(nil)
	}
	I["time.NewTicker"] = func(e *Engine, s *State, t *Thread, f *Frame, args []Value, res ssa.Value) (Value, bool) {
		tt := res.Type().(*types.Pointer).Elem()
		id := s.allocMem(tt, 1, "time.NewTicker")
		chT := tt.Underlying().(*types.Struct).Field(0).Type().Underlying().(*types.Chan).Elem()
		ch := s.alloc(&Object{Kind: OChan, ChCap: 1, ValT: chT, Site: "ticker"})
		s.tickers = append(s.tickers, ch)
		s.wobj(id).Cells[0] = ChanRef{Obj: ch}
		return ret(Ptr{Obj: id})
	}
	I["(*time.Ticker).Stop"] = func(e *Engine, s *State, t *Thread, f *Frame, args []Value, _ ssa.Value) (Value, bool) {
		p := args[0].(Ptr)
		if p.Obj != 0 {
			if c, ok := s.obj(p.Obj).Cells[p.Off].(ChanRef); ok {
				var nt []int
				for _, x := range s.tickers {
					if x != c.Obj {
						nt = append(nt, x)
					}
				}
				s.tickers = nt
			}
		}
		return ret(nil)
	}
	I["(*time.Ticker).Reset"] = func(e *Engine, s *State, t *Thread, f *Frame, args []Value, _ ssa.Value) (Value, bool) {
		return ret(nil)
	}
	I["time.After"] = func(e *Engine, s *State, t *Thread, f *Frame, args []Value, res ssa.Value) (Value, bool) {
		chT := res.Type().Underlying().(*types.Chan).Elem()
		ch := s.alloc(&Object{Kind: OChan, ChCap: 1, ValT: chT, Site: "time.After"})
		s.tickers = append(s.tickers, ch)
		return ret(ChanRef{Obj: ch})
	}

	// ---- sync
	I["(*sync.Mutex).Lock"] = func(e *Engine, s *State, t *Thread, f *Frame, args []Value, _ ssa.Value) (Value, bool) {
		return nil, e.mutexLock(s, t, args[0].(Ptr), true)
	}
	I["(*sync.Mutex).Unlock"] = func(e *Engine, s *State, t *Thread, f *Frame, args []Value, _ ssa.Value) (Value, bool) {
		e.mutexUnlock(s, t, args[0].(Ptr), true)
		return ret(nil)
	}
	I["(*sync.Mutex).TryLock"] = func(e *Engine, s *State, t *Thread, f *Frame, args []Value, _ ssa.Value) (Value, bool) {
		p := args[0].(Ptr)
		a := addr{p.Obj, p.Off}
		if _, held := s.lockOwner[a]; held {
			return ret(TFalse)
		}
		s.lockOwner[a] = t.id
		s.locksHeld[t.id] = append(s.locksHeld[t.id], a)
		return ret(TTrue)
	}
	I["(*sync.RWMutex).Lock"] = I["(*sync.Mutex).Lock"]
	I["(*sync.RWMutex).Unlock"] = I["(*sync.Mutex).Unlock"]
	I["(*sync.RWMutex).RLock"] = func(e *Engine, s *State, t *Thread, f *Frame, args []Value, _ ssa.Value) (Value, bool) {
		return nil, e.mutexLock(s, t, args[0].(Ptr), false)
	}
	I["(*sync.RWMutex).RUnlock"] = func(e *Engine, s *State, t *Thread, f *Frame, args []Value, _ ssa.Value) (Value, bool) {
		e.mutexUnlock(s, t, args[0].(Ptr), false)
		return ret(nil)
	}
	I["(*sync.WaitGroup).Add"] = func(e *Engine, s *State, t *Thread, f *Frame, args []Value, _ ssa.Value) (Value, bool) {
		p := args[0].(Ptr)
		o := s.wobj(p.Obj)
		c := o.Cells[p.Off].(*Term)
		n := BVAdd(c, Extract(c.S.W-1, 0, SExt(args[1].(*Term), 64)))
		if n.Const && sext64(n.CV, n.S.W) < 0 {
			e.fail(s, "panic", "sync: negative WaitGroup counter")
		}
		o.Cells[p.Off] = n
		return ret(nil)
	}
	I["(*sync.WaitGroup).Done"] = func(e *Engine, s *State, t *Thread, f *Frame, args []Value, _ ssa.Value) (Value, bool) {
		p := args[0].(Ptr)
		o := s.wobj(p.Obj)
		c := o.Cells[p.Off].(*Term)
		if c.Const && c.CV == 0 {
			e.fail(s, "panic", "sync: negative WaitGroup counter")
		}
		o.Cells[p.Off] = BVSub(c, BVConst(c.S.W, 1))
		return ret(nil)
	}
	I["(*sync.WaitGroup).Wait"] = func(e *Engine, s *State, t *Thread, f *Frame, args []Value, _ ssa.Value) (Value, bool) {
		p := args[0].(Ptr)
		c := s.obj(p.Obj).Cells[p.Off].(*Term)
		if c.Const && c.CV == 0 {
			return ret(nil)
		}
		t.status = TBlocked
		t.waitKind = "wg"
		t.waitPtr = p
		return nil, false
	}
	I["(*sync.Once).Do"] = func(e *Engine, s *State, t *Thread, f *Frame, args []Value, _ ssa.Value) (Value, bool) {
		p := args[0].(Ptr)
		o := s.wobj(p.Obj)
		c := o.Cells[p.Off].(*Term)
		if c.Const && c.CV != 0 {
			return ret(nil)
		}
		o.Cells[p.Off] = BVConst(c.S.W, 1)
		e.invoke(s, t, f, args[1].(Closure), nil, nil, true)
		return nil, false
	}
	I["(*sync.Pool).Get"] = func(e *Engine, s *State, t *Thread, f *Frame, args []Value, res ssa.Value) (Value, bool) {
		p := args[0].(Ptr)
		a := addr{p.Obj, p.Off}
		if l := s.pools[a]; len(l) > 0 {
			v := l[len(l)-1]
			s.pools[a] = append([]Value(nil), l[:len(l)-1]...)
			return ret(v)
		}
		// call New
		pt := f.block.Instrs[f.pc].(*ssa.Call).Call.Args[0].Type().(*types.Pointer).Elem()
		st := pt.Underlying().(*types.Struct)
		off := -1
		for i := 0; i < st.NumFields(); i++ {
			if st.Field(i).Name() == "New" {
				off = layout(pt).fields[i]
			}
		}
		nf := s.obj(p.Obj).Cells[p.Off+off].(Closure)
		if nf.IsNil() {
			return ret(Iface{})
		}
		e.invoke(s, t, f, nf, nil, res, true)
		return nil, false
	}
	I["(*sync.Pool).Put"] = func(e *Engine, s *State, t *Thread, f *Frame, args []Value, _ ssa.Value) (Value, bool) {
		p := args[0].(Ptr)
		a := addr{p.Obj, p.Off}
		s.pools[a] = append(append([]Value(nil), s.pools[a]...), args[1])
		return ret(nil)
	}

	// ---- fmt / errors / logging
	I["fmt.Sprintf"] = func(e *Engine, s *State, t *Thread, f *Frame, args []Value, _ ssa.Value) (Value, bool) {
		return ret(Str{S: "<fmt:" + strOf(args[0]) + ">", Sym: true})
	}
	I["fmt.Sprint"] = func(e *Engine, s *State, t *Thread, f *Frame, args []Value, _ ssa.Value) (Value, bool) {
		return ret(Str{S: "<fmt>", Sym: true})
	}
	I["fmt.Sprintln"] = I["fmt.Sprint"]
	for _, n := range []string{"fmt.Fprintf", "fmt.Fprint", "fmt.Fprintln", "fmt.Printf", "fmt.Println", "fmt.Print"} {
		I[n] = func(e *Engine, s *State, t *Thread, f *Frame, args []Value, _ ssa.Value) (Value, bool) {
			return ret(Tuple{i64(0), Iface{}})
		}
	}
	I["fmt.Errorf"] = func(e *Engine, s *State, t *Thread, f *Frame, args []Value, _ ssa.Value) (Value, bool) {
		format := strOf(args[0])
		var wrapped Value
		if strings.Contains(format, "%w") {
			if sl, ok := args[1].(Slice); ok && sl.Obj != 0 && sl.Len.Const {
				o := s.obj(sl.Obj)
				for i := 0; i < int(sl.Len.CV); i++ {
					if iv, ok := o.Cells[sl.Off+i].(Iface); ok && iv.T != nil && types.Implements(iv.T, e.errType.Underlying().(*types.Interface)) {
						wrapped = iv
					}
				}
			}
		}
		fp := e.prog.ImportedPackage("fmt")
		if wrapped != nil && fp != nil {
			wt := fp.Type("wrapError").Type()
			id := s.allocMem(wt, 1, "fmt.Errorf")
			o := s.wobj(id)
			o.Cells[0] = Str{S: "<" + format + ">", Sym: true}
			o.Cells[1] = wrapped
			return ret(Iface{T: types.NewPointer(wt), V: Ptr{Obj: id}})
		}
		ep := e.prog.ImportedPackage("errors")
		et := ep.Type("errorString").Type()
		id := s.allocMem(et, 1, "fmt.Errorf")
		s.wobj(id).Cells[0] = Str{S: "<" + format + ">", Sym: true}
		return ret(Iface{T: types.NewPointer(et), V: Ptr{Obj: id}})
	}
	I["(*github.com/pion/logging.DefaultLoggerFactory).NewLogger"] = func(e *Engine, s *State, t *Thread, f *Frame, args []Value, res ssa.Value) (Value, bool) {
		lp := e.prog.ImportedPackage("github.com/pion/logging")
		lt := lp.Type("DefaultLeveledLogger").Type()
		id := s.allocMem(lt, 1, "logger")
		return ret(Iface{T: types.NewPointer(lt), V: Ptr{Obj: id}})
	}
	I["github.com/pion/logging.NewDefaultLoggerFactory"] = func(e *Engine, s *State, t *Thread, f *Frame, args []Value, res ssa.Value) (Value, bool) {
		lp := e.prog.ImportedPackage("github.com/pion/logging")
		lt := lp.Type("DefaultLoggerFactory").Type()
		id := s.allocMem(lt, 1, "loggerfactory")
		return ret(Ptr{Obj: id})
	}

	// ---- math
	un := func(fn func(*Term) *Term) intrinsic {
		return func(e *Engine, s *State, t *Thread, f *Frame, args []Value, _ ssa.Value) (Value, bool) {
			return ret(fn(args[0].(*Term)))
		}
	}
	I["math.Sqrt"] = un(FPSqrt)
	I["math.sqrt"] = un(FPSqrt)
	I["math.Abs"] = un(FPAbs)
	I["math.Ceil"] = un(func(x *Term) *Term { return FPRound("RTP", x) })
	I["math.Floor"] = un(func(x *Term) *Term { return FPRound("RTN", x) })
	I["math.Trunc"] = un(func(x *Term) *Term { return FPRound("RTZ", x) })
	I["math.IsNaN"] = un(FPIsNaN)
	I["math.Exp"] = un(func(x *Term) *Term { return UFApp("uf_exp", SFP, x) })
	I["math.Log"] = un(func(x *Term) *Term { return UFApp("uf_log", SFP, x) })
	I["math.Pow"] = func(e *Engine, s *State, t *Thread, f *Frame, args []Value, _ ssa.Value) (Value, bool) {
		return ret(UFApp("uf_pow", SFP, args[0].(*Term), args[1].(*Term)))
	}
	I["math.IsInf"] = func(e *Engine, s *State, t *Thread, f *Frame, args []Value, _ ssa.Value) (Value, bool) {
		x := args[0].(*Term)
		sg := args[1].(*Term)
		pos := And(FPIsInf(x), FPLt(FPConst(0), x))
		neg := And(FPIsInf(x), FPLt(x, FPConst(0)))
		return ret(Ite(BVSlt(i64(0), sg), pos, Ite(BVSlt(sg, i64(0)), neg, FPIsInf(x))))
	}
	I["math.Min"] = func(e *Engine, s *State, t *Thread, f *Frame, args []Value, _ ssa.Value) (Value, bool) {
		x, y := args[0].(*Term), args[1].(*Term)
		// Go: NaN if either NaN; -Inf handling subsumed by comparison
		r := Ite(FPLt(x, y), x, y)
		r = Ite(Or(FPIsNaN(x), FPIsNaN(y)), FPConst(nan()), r)
		return ret(r)
	}
	I["math.Max"] = func(e *Engine, s *State, t *Thread, f *Frame, args []Value, _ ssa.Value) (Value, bool) {
		x, y := args[0].(*Term), args[1].(*Term)
		r := Ite(FPLt(y, x), x, y)
		r = Ite(Or(FPIsNaN(x), FPIsNaN(y)), FPConst(nan()), r)
		return ret(r)
	}
	I["math.Float64frombits"] = un(FPFromBits)
	I["math.Float64bits"] = func(e *Engine, s *State, t *Thread, f *Frame, args []Value, _ ssa.Value) (Value, bool) {
		x := args[0].(*Term)
		if x.Const {
			return ret(BVConst(64, x.CV))
		}
		v := NewVar("fbits", SBV(64))
		s.addPC(Or(And(FPIsNaN(x), Eq(v, BVConst(64, 0x7ff8000000000001))), Eq(FPFromBits(v), x)))
		return ret(v)
	}

	// ---- rand
	for _, n := range []string{"math/rand.Uint32", "math/rand/v2.Uint32", "(*math/rand.Rand).Uint32"} {
		I[n] = func(e *Engine, s *State, t *Thread, f *Frame, args []Value, _ ssa.Value) (Value, bool) {
			return ret(e.nondetEnv(s, "rand32", 32))
		}
	}
	I["math/rand.Uint64"] = func(e *Engine, s *State, t *Thread, f *Frame, args []Value, _ ssa.Value) (Value, bool) {
		return ret(e.nondetEnv(s, "rand64", 64))
	}
	I["github.com/pion/randutil.NewMathRandomGenerator"] = func(e *Engine, s *State, t *Thread, f *Frame, args []Value, res ssa.Value) (Value, bool) {
		rp := e.prog.ImportedPackage("github.com/pion/randutil")
		rt := rp.Type("mathRandomGenerator").Type()
		id := s.allocMem(rt, 1, "randgen")
		return ret(Iface{T: types.NewPointer(rt), V: Ptr{Obj: id}})
	}

	// ---- atomics (functions)
	for _, w := range []struct {
		n string
		w int
	}{{"Uint32", 32}, {"Uint64", 64}, {"Int32", 32}, {"Int64", 64}} {
		w := w
		I["sync/atomic.Load"+w.n] = func(e *Engine, s *State, t *Thread, f *Frame, args []Value, _ ssa.Value) (Value, bool) {
			p := args[0].(Ptr)
			e.markAtomic(s, p)
			return ret(e.loadRaw(s, p))
		}
		I["sync/atomic.Store"+w.n] = func(e *Engine, s *State, t *Thread, f *Frame, args []Value, _ ssa.Value) (Value, bool) {
			p := args[0].(Ptr)
			e.markAtomic(s, p)
			e.storeRaw(s, p, args[1])
			return ret(nil)
		}
		I["sync/atomic.Add"+w.n] = func(e *Engine, s *State, t *Thread, f *Frame, args []Value, _ ssa.Value) (Value, bool) {
			p := args[0].(Ptr)
			e.markAtomic(s, p)
			n := BVAdd(e.loadRaw(s, p).(*Term), args[1].(*Term))
			e.storeRaw(s, p, n)
			return ret(n)
		}
		I["sync/atomic.CompareAndSwap"+w.n] = func(e *Engine, s *State, t *Thread, f *Frame, args []Value, _ ssa.Value) (Value, bool) {
			p := args[0].(Ptr)
			e.markAtomic(s, p)
			cur := e.loadRaw(s, p).(*Term)
			eq := Eq(cur, args[1].(*Term))
			e.storeRaw(s, p, Ite(eq, args[2].(*Term), cur))
			return ret(eq)
		}
		I["sync/atomic.Swap"+w.n] = func(e *Engine, s *State, t *Thread, f *Frame, args []Value, _ ssa.Value) (Value, bool) {
			p := args[0].(Ptr)
			e.markAtomic(s, p)
			cur := e.loadRaw(s, p)
			e.storeRaw(s, p, args[1])
			return ret(cur)
		}
	}
	I["maps.Clone"] = nil
	delete(I, "maps.Clone")
	I["os.Getenv"] = func(e *Engine, s *State, t *Thread, f *Frame, args []Value, _ ssa.Value) (Value, bool) {
		return ret(Str{})
	}
	I["runtime.Gosched"] = func(e *Engine, s *State, t *Thread, f *Frame, args []Value, _ ssa.Value) (Value, bool) {
		return ret(nil)
	}
}

func nan() float64 {
	var z float64
	return z / z
}

func strOf(v Value) string {
	if s, ok := v.(Str); ok {
		return s.S
	}
	return "?"
}

func floorDiv96(d *Term, k uint64) *Term {
	// floor division of signed 96-bit by positive constant
	kk := BVConst(96, k)
	q := BVSDiv(d, kk)
	r := BVSRem(d, kk)
	return Ite(BVSlt(r, BVConst(96, 0)), BVSub(q, BVConst(96, 1)), q)
}

// nondetEnv: environment nondeterminism (not replayable through Nondet stream)
func (e *Engine) nondetEnv(s *State, kind string, w int) *Term {
	v := NewVar(kind, SBV(w))
	s.nondets = append(s.nondets, NondetRec{Kind: "env:" + kind, Var: v, Site: e.pos(e.curInstr(s))})
	return v
}

func (e *Engine) loadRaw(s *State, p Ptr) Value {
	if p.Obj == 0 {
		e.fail(s, "nil-deref", "atomic op on nil pointer")
	}
	return s.obj(p.Obj).Cells[p.Off]
}
func (e *Engine) storeRaw(s *State, p Ptr, v Value) {
	s.wobj(p.Obj).Cells[p.Off] = v
}
func (e *Engine) markAtomic(s *State, p Ptr) {
	if e.cfg.Lockset {
		a := addr{p.Obj, p.Off}
		s.atomicCells[a] = true
		if site, ok := s.plainCells[a]; ok {
			e.report(s, "atomic-mix", "cell accessed atomically here was accessed plainly at "+site, Model{}, nil)
		}
	}
}

// prefixIntrinsic handles families of functions by name prefix.
func (e *Engine) prefixIntrinsic(name string) intrinsic {
	switch {
	case strings.HasPrefix(name, "(*github.com/pion/logging.DefaultLeveledLogger)."):
		return func(e *Engine, s *State, t *Thread, f *Frame, args []Value, res ssa.Value) (Value, bool) {
			return ret(nil)
		}
	case strings.HasPrefix(name, "log/slog."), strings.HasPrefix(name, "(*log/slog.Logger)."):
		return func(e *Engine, s *State, t *Thread, f *Frame, args []Value, res ssa.Value) (Value, bool) {
			if res != nil {
				if _, isTuple := res.Type().(*types.Tuple); !isTuple && res.Type() != nil {
					if tt, ok := res.Type().(*types.Tuple); ok && tt.Len() == 0 {
						return ret(nil)
					}
				}
			}
			return ret(nil)
		}
	case strings.HasPrefix(name, "(*github.com/pion/randutil.mathRandomGenerator)."):
		m := name[strings.LastIndex(name, ".")+1:]
		return func(e *Engine, s *State, t *Thread, f *Frame, args []Value, res ssa.Value) (Value, bool) {
			switch m {
			case "Intn":
				n := args[1].(*Term)
				v := e.nondetEnv(s, "randintn", 64)
				s.addPC(And(BVSle(i64(0), v), BVSlt(v, n)))
				return ret(v)
			case "Uint32":
				return ret(e.nondetEnv(s, "rand32", 32))
			case "Uint64":
				return ret(e.nondetEnv(s, "rand64", 64))
			}
			e.unsupportedf("randutil %s", m)
			return nil, true
		}
	case strings.HasPrefix(name, "(*sync/atomic."):
		// typed atomics: (*sync/atomic.Uint32).Add etc. value in last slot of struct
		i := strings.Index(name, ").")
		m := name[i+2:]
		return func(e *Engine, s *State, t *Thread, f *Frame, args []Value, res ssa.Value) (Value, bool) {
			p := args[0].(Ptr)
			if p.Obj == 0 {
				e.fail(s, "nil-deref", "atomic method on nil")
			}
			e.markAtomic(s, p)
			cur := s.obj(p.Obj).Cells[p.Off]
			switch m {
			case "Load":
				return ret(cur)
			case "Store":
				e.storeRaw(s, p, args[1])
				return ret(nil)
			case "Add":
				n := BVAdd(cur.(*Term), args[1].(*Term))
				e.storeRaw(s, p, n)
				return ret(n)
			case "Swap":
				e.storeRaw(s, p, args[1])
				return ret(cur)
			case "CompareAndSwap":
				eq := valueEq(cur, args[1])
				if eq.Const {
					if eq.IsTrue() {
						e.storeRaw(s, p, args[2])
					}
					return ret(eq)
				}
				nv, ok := mergeValue(eq, args[2], cur)
				if !ok {
					e.unsupportedf("atomic CAS on unmergeable values")
				}
				e.storeRaw(s, p, nv)
				return ret(eq)
			}
			e.unsupportedf("atomic method %s", name)
			return nil, true
		}
	case strings.HasPrefix(name, "maps.Clone["):
		return func(e *Engine, s *State, t *Thread, f *Frame, args []Value, res ssa.Value) (Value, bool) {
			m := args[0].(MapRef)
			if m.Obj == 0 {
				return ret(MapRef{})
			}
			o := s.obj(m.Obj)
			id := s.alloc(&Object{Kind: OMap, KeyT: o.KeyT, ValT: o.ValT, Entries: append([]MapEntry(nil), o.Entries...), Site: "maps.Clone"})
			return ret(MapRef{Obj: id})
		}
	case strings.HasPrefix(name, "(*sync.Map)."):
		m := name[len("(*sync.Map)."):]
		return func(e *Engine, s *State, t *Thread, f *Frame, args []Value, res ssa.Value) (Value, bool) {
			return e.syncMapOp(s, t, f, m, args, res)
		}
	}
	return nil
}

func (e *Engine) syncMapOp(s *State, t *Thread, f *Frame, m string, args []Value, res ssa.Value) (Value, bool) {
	p := args[0].(Ptr)
	a := addr{p.Obj, p.Off}
	id, ok := s.syncMaps[a]
	anyT := types.NewInterfaceType(nil, nil)
	if !ok {
		id = s.alloc(&Object{Kind: OMap, KeyT: anyT, ValT: anyT, Site: "sync.Map"})
		s.syncMaps[a] = id
	}
	mr := MapRef{Obj: id}
	switch m {
	case "Load":
		v, found := e.mapGet(s, mr, args[1], anyT)
		return ret(Tuple{v, found})
	case "Store":
		e.mapUpdate(s, mr, args[1], args[2])
		return ret(nil)
	case "Delete":
		e.mapDelete(s, mr, args[1])
		return ret(nil)
	case "LoadOrStore":
		v, found := e.mapGet(s, mr, args[1], anyT)
		if e.decide(s, found) {
			return ret(Tuple{v, TTrue})
		}
		e.mapUpdate(s, mr, args[1], args[2])
		return ret(Tuple{args[2], TFalse})
	case "LoadAndDelete":
		v, found := e.mapGet(s, mr, args[1], anyT)
		e.mapDelete(s, mr, args[1])
		return ret(Tuple{v, found})
	case "Range":
		// call f(k,v) for each live entry, sequentially, via a helper frame chain: unsupported for now unless empty
		o := s.obj(id)
		if len(o.Entries) == 0 {
			return ret(nil)
		}
		return e.syncMapRange(s, t, f, mr, args[1].(Closure))
	}
	e.unsupportedf("sync.Map.%s", m)
	return nil, true
}

func (e *Engine) syncMapRange(s *State, t *Thread, f *Frame, mr MapRef, fn Closure) (Value, bool) {
	// Implemented by pushing frames for each live entry in reverse order with results ignored
	// (early termination when f returns false is not modelled: all entries are visited).
	o := s.obj(mr.Obj)
	var live []MapEntry
	for _, en := range o.Entries {
		if en.Live.IsFalse() {
			continue
		}
		if e.decide(s, en.Live) {
			live = append(live, en)
		}
	}
	f.pc++
	for i := len(live) - 1; i >= 0; i-- {
		nf := e.newFrame(s, fn.Fn, []Value{live[i].Key, live[i].Val}, fn.Binds, nil)
		nf.retHook = "nopcadvance"
		t.frames = append(t.frames, nf)
	}
	if len(live) == 0 {
		f.pc--
		return ret(nil)
	}
	return nil, false
}

func (e *Engine) retHook(s *State, t *Thread, f *Frame, rv Value) {
	switch f.retHook {
	case "nopcadvance":
		// handled in doReturn
	}
}

func (e *Engine) callIntrinsic(s *State, t *Thread, f *Frame, name string, args []Value, result ssa.Value) (Value, bool) {
	if strings.HasPrefix(name, "builtin:") {
		return e.builtin(s, f, name[8:], args, result), true
	}
	e.unsupportedf("intrinsic %s", name)
	return nil, true
}

var _ = fmt.Sprintf
