package main

import (
	"fmt"
	"go/types"

	"golang.org/x/tools/go/ssa"
)

type selCase struct {
	Chan int
	Send bool
	Val  Value
}

type forcedOp struct {
	Idx int
	Val Value
	Ok  bool
}

// extra per-thread wait data lives in side tables keyed by thread id inside State via ghost-like maps;
// to keep Thread cloning cheap they are stored on the Thread itself.

func (t *Thread) setWaitSel(cs []selCase) { t.waitSelCases = cs }

// choose: nondeterministic choice among n options (forks). Recorded in s.sched.
func (e *Engine) choose(s *State, n int, why string) int {
	if n <= 1 {
		return 0
	}
	if len(s.choices) > 0 {
		c := s.choices[0]
		s.choices = s.choices[1:]
		s.sched = append(s.sched, c)
		return c
	}
	e.forks++
	e.schedDecisions++
	var out []*State
	for i := 0; i < n; i++ {
		st := s
		if i < n-1 {
			st = s.clone()
		}
		st.choices = append([]int(nil), i)
		out = append(out, st)
	}
	panic(forkSignal{out})
}

func (e *Engine) chanReadyRecv(s *State, t *Thread, ch int) (ready bool, partner *Thread, pidx int) {
	if ch == 0 {
		return false, nil, 0
	}
	o := s.obj(ch)
	if len(o.Buf) > 0 || o.Closed {
		return true, nil, 0
	}
	for _, b := range s.threads {
		if b == t || b.status != TBlocked || b.forced != nil {
			continue
		}
		for i, c := range b.waitSelCases {
			if c.Send && c.Chan == ch {
				return true, b, i
			}
		}
	}
	return false, nil, 0
}

func (e *Engine) chanReadySend(s *State, t *Thread, ch int) (ready bool, partner *Thread, pidx int) {
	if ch == 0 {
		return false, nil, 0
	}
	o := s.obj(ch)
	if o.Closed {
		return true, nil, 0
	}
	if len(o.Buf) < o.ChCap {
		return true, nil, 0
	}
	for _, b := range s.threads {
		if b == t || b.status != TBlocked || b.forced != nil {
			continue
		}
		for i, c := range b.waitSelCases {
			if !c.Send && c.Chan == ch {
				return true, b, i
			}
		}
	}
	return false, nil, 0
}

// selectCore: returns (index, recvVal, recvOk, done). index -1 = default.
func (e *Engine) selectCore(s *State, t *Thread, cases []selCase, blocking bool, elemT func(i int) types.Type) (int, Value, bool, bool) {
	if t.forced != nil {
		fo := t.forced
		t.forced = nil
		t.waitSelCases = nil
		return fo.Idx, fo.Val, fo.Ok, true
	}
	type opt struct {
		i       int
		partner *Thread
		pidx    int
	}
	var ready []opt
	for i, c := range cases {
		if c.Send {
			if ok, p, pi := e.chanReadySend(s, t, c.Chan); ok {
				ready = append(ready, opt{i, p, pi})
			}
		} else {
			if ok, p, pi := e.chanReadyRecv(s, t, c.Chan); ok {
				ready = append(ready, opt{i, p, pi})
			}
		}
	}
	if len(ready) == 0 {
		if !blocking {
			return -1, nil, false, true
		}
		t.status = TBlocked
		t.waitKind = "select"
		t.waitSelCases = cases
		return 0, nil, false, false
	}
	k := 0
	if len(ready) > 1 {
		k = e.choose(s, len(ready), "select")
	}
	r := ready[k]
	c := cases[r.i]
	t.waitSelCases = nil
	if c.Send {
		o := s.wobj(c.Chan)
		if o.Closed {
			e.fail(s, "panic", "send on closed channel")
		}
		if r.partner != nil {
			r.partner.forced = &forcedOp{Idx: r.pidx, Val: c.Val, Ok: true}
			r.partner.status = TRunnable
			r.partner.waitSelCases = nil
		} else {
			o.Buf = append(o.Buf, c.Val)
		}
		return r.i, nil, false, true
	}
	o := s.wobj(c.Chan)
	if len(o.Buf) > 0 {
		v := o.Buf[0]
		o.Buf = append([]Value(nil), o.Buf[1:]...)
		return r.i, v, true, true
	}
	if o.Closed {
		return r.i, zeroValue(elemT(r.i)), false, true
	}
	// rendezvous with blocked sender
	p := r.partner
	v := p.waitSelCases[r.pidx].Val
	p.forced = &forcedOp{Idx: r.pidx, Ok: true}
	p.status = TRunnable
	p.waitSelCases = nil
	return r.i, v, true, true
}

func (e *Engine) chanSend(s *State, t *Thread, c ChanRef, v Value) bool {
	if c.Obj == 0 {
		t.status = TBlocked
		t.waitKind = "nilchan"
		return false
	}
	_, _, _, done := e.selectCore(s, t, []selCase{{Chan: c.Obj, Send: true, Val: v}}, true, nil)
	return done
}

func (e *Engine) chanRecv(s *State, t *Thread, c ChanRef, commaOk bool) (Value, bool) {
	if c.Obj == 0 {
		t.status = TBlocked
		t.waitKind = "nilchan"
		return nil, false
	}
	et := s.obj(c.Obj).ValT
	_, v, ok, done := e.selectCore(s, t, []selCase{{Chan: c.Obj}}, true, func(int) types.Type { return et })
	if !done {
		return nil, false
	}
	if v == nil {
		v = zeroValue(et)
	}
	if commaOk {
		return Tuple{v, BoolConst(ok)}, true
	}
	return v, true
}

func (e *Engine) selectOp(s *State, t *Thread, f *Frame, x *ssa.Select) (Value, bool) {
	var cases []selCase
	for _, st := range x.States {
		ch := e.get(f, st.Chan).(ChanRef)
		c := selCase{Chan: ch.Obj, Send: st.Dir == types.SendOnly}
		if c.Send {
			c.Val = e.get(f, st.Send)
		}
		cases = append(cases, c)
	}
	elemT := func(i int) types.Type {
		return x.States[i].Chan.Type().Underlying().(*types.Chan).Elem()
	}
	idx, v, ok, done := e.selectCore(s, t, cases, x.Blocking, elemT)
	if !done {
		return nil, false
	}
	// result tuple: (index int, recvOk bool, r_0 T_0, ... r_n-1 T_n-1) for recv cases
	res := Tuple{i64(int64(idx)), BoolConst(ok)}
	for i, st := range x.States {
		if st.Dir == types.RecvOnly {
			if i == idx && v != nil {
				res = append(res, v)
			} else {
				res = append(res, zeroValue(elemT(i)))
			}
		}
	}
	return res, true
}

func (e *Engine) wakeChan(s *State, ch int) {}

func (e *Engine) onThreadExit(s *State, t *Thread) {}

func (e *Engine) canProceed(s *State, t *Thread) bool {
	if t.forced != nil {
		return true
	}
	switch t.waitKind {
	case "lock":
		a := addr{t.waitPtr.Obj, t.waitPtr.Off}
		_, held := s.lockOwner[a]
		return !held && s.rlockCnt[a] == 0
	case "rlock":
		a := addr{t.waitPtr.Obj, t.waitPtr.Off}
		_, held := s.lockOwner[a]
		return !held
	case "select":
		for _, c := range t.waitSelCases {
			if c.Send {
				if ok, _, _ := e.chanReadySend(s, t, c.Chan); ok {
					return true
				}
			} else {
				if ok, _, _ := e.chanReadyRecv(s, t, c.Chan); ok {
					return true
				}
			}
		}
		return false
	case "wg":
		o := s.obj(t.waitPtr.Obj)
		c, _ := o.Cells[t.waitPtr.Off].(*Term)
		return c != nil && c.Const && c.CV == 0
	case "yield":
		for _, o := range s.threads {
			if o != t && (o.status == TRunnable || o.status == TBlocked && o.waitKind != "yield" && e.canProceed(s, o)) && len(o.frames) > 0 {
				return false
			}
		}
		return true
	case "nilchan":
		return false
	}
	return false
}

// schedule picks the next thread to run. Returns false if the path has ended.
func (e *Engine) schedule(s *State) bool {
	// wake blocked threads whose condition holds
	var cands []int
	for i, t := range s.threads {
		if len(t.frames) == 0 || t.status == TDone {
			continue
		}
		if t.status == TRunnable {
			cands = append(cands, i)
		} else if t.status == TBlocked && t.waitKind != "yield" && e.canProceed(s, t) {
			cands = append(cands, i)
		}
	}
	if len(cands) == 0 {
		// yielding threads resume when nothing else can run
		for i, t := range s.threads {
			if t.status == TBlocked && t.waitKind == "yield" {
				t.status = TRunnable
				t.waitKind = ""
				s.cur = i
				return true
			}
		}
		main := s.threads[0]
		if main.status == TDone {
			return false
		}
		s.cur = 0
		desc := ""
		for _, t := range s.threads {
			if t.status == TBlocked && len(t.frames) > 0 {
				desc += fmt.Sprintf(" [t%d %s in %s]", t.id, t.waitKind, t.top().fn.String())
			}
		}
		e.fail(s, "deadlock", "all goroutines blocked:"+desc)
		return false
	}
	pick := cands[0]
	if e.cfg.Preempt > 0 && len(cands) > 1 {
		k := e.choose(s, len(cands), "schedule")
		pick = cands[k]
	}
	t := s.threads[pick]
	if t.status == TBlocked {
		t.status = TRunnable
		t.waitKind = ""
	}
	s.cur = pick
	return true
}

// yield: current thread lets all others run until quiescent.
func (e *Engine) yield(s *State, t *Thread) {
	t.status = TBlocked
	t.waitKind = "yield"
}

// ---- mutexes

func (e *Engine) mutexLock(s *State, t *Thread, p Ptr, write bool) bool {
	if p.Obj == 0 {
		e.fail(s, "nil-deref", "Lock on nil mutex")
	}
	a := addr{p.Obj, p.Off}
	owner, held := s.lockOwner[a]
	if write {
		if held || s.rlockCnt[a] > 0 {
			_ = owner
			t.status = TBlocked
			t.waitKind = "lock"
			t.waitPtr = p
			return false
		}
		s.lockOwner[a] = t.id
	} else {
		if held {
			t.status = TBlocked
			t.waitKind = "rlock"
			t.waitPtr = p
			return false
		}
		s.rlockCnt[a]++
	}
	s.locksHeld[t.id] = append(s.locksHeld[t.id], a)
	e.preemptPoint(s, t)
	return true
}

func (e *Engine) mutexUnlock(s *State, t *Thread, p Ptr, write bool) {
	a := addr{p.Obj, p.Off}
	if write {
		if _, held := s.lockOwner[a]; !held {
			e.fail(s, "panic", "sync: unlock of unlocked mutex")
		}
		delete(s.lockOwner, a)
	} else {
		if s.rlockCnt[a] <= 0 {
			e.fail(s, "panic", "sync: RUnlock of unlocked RWMutex")
		}
		s.rlockCnt[a]--
		if s.rlockCnt[a] == 0 {
			delete(s.rlockCnt, a)
		}
	}
	// remove from any holder list (unlock by another goroutine is legal in Go)
	for tid, hl := range s.locksHeld {
		for i := len(hl) - 1; i >= 0; i-- {
			if hl[i] == a {
				s.locksHeld[tid] = append(append([]addr(nil), hl[:i]...), hl[i+1:]...)
				if write || tid == t.id {
					goto done
				}
			}
		}
	}
done:
	e.preemptPoint(s, t)
}

// preemptPoint: with a pre-emption budget, another runnable thread may be scheduled here.
func (e *Engine) preemptPoint(s *State, t *Thread) {
	if e.cfg.Preempt <= 0 || s.preempts >= e.cfg.Preempt {
		return
	}
	s.pendingPreempt = true
}
