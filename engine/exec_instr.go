package main

import (
	"fmt"
	"go/constant"
	"go/token"
	"go/types"
	"math"
	"math/big"

	"golang.org/x/tools/go/ssa"
)

func (e *Engine) constVal(c *ssa.Const) Value {
	t := c.Type()
	if c.Value == nil {
		return zeroValue(t)
	}
	if w, signed, ok := intInfo(t); ok {
		v := constant.ToInt(c.Value)
		if i, exact := constant.Int64Val(v); exact {
			return BVConstS(w, i)
		}
		if u, exact := constant.Uint64Val(v); exact {
			return BVConst(w, u)
		}
		_ = signed
		bi, _ := new(big.Int).SetString(v.ExactString(), 10)
		return BVConstBig(w, bi)
	}
	if isBool(t) {
		return BoolConst(constant.BoolVal(c.Value))
	}
	if isFloat(t) {
		f, _ := constant.Float64Val(c.Value)
		return FPConst(f)
	}
	if isString(t) {
		return Str{S: constant.StringVal(c.Value)}
	}
	panic(fmt.Sprintf("constVal: unsupported %v", c))
}

func (e *Engine) exec(s *State, t *Thread, f *Frame, in ssa.Instruction) stepResult {
	cont := stepResult{kind: stepCont}
	switch x := in.(type) {
	case *ssa.DebugRef:
	case *ssa.Alloc:
		n := s.allocMem(x.Type().(*types.Pointer).Elem(), 1, e.pos(x))
		e.set(f, x, Ptr{Obj: n})
	case *ssa.UnOp:
		e.set(f, x, e.unop(s, f, x))
	case *ssa.BinOp:
		e.set(f, x, e.binop(s, x.Op, e.get(f, x.X), e.get(f, x.Y), x.X.Type(), x))
	case *ssa.Store:
		p := e.get(f, x.Addr).(Ptr)
		e.store(s, p, x.Val.Type(), e.get(f, x.Val))
	case *ssa.FieldAddr:
		p := e.get(f, x.X).(Ptr)
		if p.Obj == 0 {
			e.fail(s, "nil-deref", "field address of nil pointer")
		}
		st := x.X.Type().Underlying().(*types.Pointer).Elem()
		p.Off += layout(st).fields[x.Field]
		e.set(f, x, p)
	case *ssa.Field:
		a := e.get(f, x.X).(Agg)
		l := layout(x.X.Type())
		off := l.fields[x.Field]
		ft := x.Type()
		e.set(f, x, unflatten(ft, a[off:off+slots(ft)]))
	case *ssa.IndexAddr:
		e.set(f, x, e.indexAddr(s, f, x))
	case *ssa.Index:
		e.set(f, x, e.indexVal(s, f, x))
	case *ssa.Slice:
		e.set(f, x, e.sliceOp(s, f, x))
	case *ssa.Jump:
		e.jump(s, f, f.block.Succs[0])
		return cont
	case *ssa.Return:
		var rv Value
		switch len(x.Results) {
		case 0:
		case 1:
			rv = e.get(f, x.Results[0])
		default:
			tup := make(Tuple, len(x.Results))
			for i, r := range x.Results {
				tup[i] = e.get(f, r)
			}
			rv = tup
		}
		return e.doReturn(s, t, rv)
	case *ssa.Call:
		return e.call(s, t, f, x, &x.Call)
	case *ssa.Go:
		fn, args := e.resolveCall(s, f, &x.Call)
		e.spawn(s, fn, args, "go@"+e.pos(x))
	case *ssa.Defer:
		fn, args := e.resolveCall(s, f, &x.Call)
		f.defers = append(f.defers, Deferred{Fn: fn, Args: args, Call: &x.Call})
	case *ssa.RunDefers:
		if len(f.defers) > 0 {
			d := f.defers[len(f.defers)-1]
			f.defers = f.defers[:len(f.defers)-1]
			// stay at RunDefers until empty
			return e.invoke(s, t, f, d.Fn.(Closure), d.Args, nil, false)
		}
	case *ssa.Panic:
		v := e.get(f, x.X)
		msg := "panic"
		if i, ok := v.(Iface); ok {
			if st, ok := i.V.(Str); ok {
				msg = "panic: " + st.S
			} else if i.T != nil {
				msg = "panic: " + i.T.String()
			}
		}
		e.fail(s, "panic", msg)
	case *ssa.MakeInterface:
		e.set(f, x, Iface{T: x.X.Type(), V: e.get(f, x.X)})
	case *ssa.ChangeInterface:
		e.set(f, x, e.get(f, x.X))
	case *ssa.ChangeType:
		e.set(f, x, e.get(f, x.X))
	case *ssa.Convert:
		e.set(f, x, e.convert(s, e.get(f, x.X), x.X.Type(), x.Type()))
	case *ssa.MultiConvert:
		e.set(f, x, e.convert(s, e.get(f, x.X), x.X.Type(), x.Type()))
	case *ssa.TypeAssert:
		e.set(f, x, e.typeAssert(s, f, x))
	case *ssa.Extract:
		e.set(f, x, e.get(f, x.Tuple).(Tuple)[x.Index])
	case *ssa.MakeClosure:
		binds := make([]Value, len(x.Bindings))
		for i, b := range x.Bindings {
			binds[i] = e.get(f, b)
		}
		e.set(f, x, Closure{Fn: x.Fn.(*ssa.Function), Binds: binds})
	case *ssa.MakeSlice:
		e.set(f, x, e.makeSlice(s, f, x))
	case *ssa.MakeMap:
		mt := x.Type().Underlying().(*types.Map)
		id := s.alloc(&Object{Kind: OMap, KeyT: mt.Key(), ValT: mt.Elem(), Site: e.pos(x)})
		e.set(f, x, MapRef{Obj: id})
	case *ssa.MakeChan:
		sz := e.get(f, x.Size).(*Term)
		n := int(e.concretize(s, sz, "chan size"))
		id := s.alloc(&Object{Kind: OChan, ChCap: n, ValT: x.Type().Underlying().(*types.Chan).Elem(), Site: e.pos(x)})
		e.set(f, x, ChanRef{Obj: id})
	case *ssa.MapUpdate:
		e.mapUpdate(s, e.get(f, x.Map).(MapRef), e.get(f, x.Key), e.get(f, x.Value))
	case *ssa.Lookup:
		e.set(f, x, e.lookup(s, f, x))
	case *ssa.Range:
		e.set(f, x, e.rangeInit(s, e.get(f, x.X)))
	case *ssa.Next:
		it := e.get(f, x.Iter).(Iter)
		r := e.rangeNext(s, x, &it)
		e.set(f, x.Iter, it)
		e.set(f, x, r)
	case *ssa.Send:
		if !e.chanSend(s, t, e.get(f, x.Chan).(ChanRef), e.get(f, x.X)) {
			return cont // blocked; retry later
		}
	case *ssa.Select:
		v, ok := e.selectOp(s, t, f, x)
		if !ok {
			return cont
		}
		e.set(f, x, v)
	case *ssa.SliceToArrayPointer:
		sl := e.get(f, x.X).(Slice)
		e.set(f, x, Ptr{Obj: sl.Obj, Off: sl.Off})
	default:
		e.unsupportedf("instruction %T", in)
	}
	f.pc++
	return cont
}

func (e *Engine) doReturn(s *State, t *Thread, rv Value) stepResult {
	f := t.top()
	t.frames = t.frames[:len(t.frames)-1]
	if f.retHook != "" {
		e.retHook(s, t, f, rv)
	}
	if len(t.frames) == 0 {
		t.status = TDone
		if t.id == 0 {
			// harness entry returned: path complete (other threads are abandoned like process exit)
			e.finishPath(s)
			return stepResult{kind: stepEnd}
		}
		e.onThreadExit(s, t)
		if !e.schedule(s) {
			return stepResult{kind: stepEnd}
		}
		return stepResult{kind: stepCont}
	}
	c := t.top()
	if f.retHook == "nopcadvance" {
		return stepResult{kind: stepCont} // caller's pc was advanced by the intrinsic that pushed this frame
	}
	in := c.block.Instrs[c.pc]
	if _, isRD := in.(*ssa.RunDefers); isRD {
		return stepResult{kind: stepCont} // re-execute RunDefers
	}
	if f.result != nil {
		if rv == nil {
			rv = Tuple{}
		}
		e.set(c, f.result, rv)
	}
	c.pc++
	return stepResult{kind: stepCont}
}

func (e *Engine) unop(s *State, f *Frame, x *ssa.UnOp) Value {
	v := e.get(f, x.X)
	switch x.Op {
	case token.MUL:
		p := v.(Ptr)
		return e.load(s, p, x.Type())
	case token.SUB:
		tm := v.(*Term)
		if tm.S.K == KFP {
			return FPNeg(tm)
		}
		return BVNeg(tm)
	case token.NOT:
		return Not(v.(*Term))
	case token.XOR:
		return BVNot(v.(*Term))
	case token.ARROW:
		r, ok := e.chanRecv(s, s.thread(), v.(ChanRef), x.CommaOk)
		if !ok {
			f.pc-- // compensate the pc++ in exec: retry
			return nilPlaceholder{}
		}
		return r
	}
	e.unsupportedf("unop %v", x.Op)
	return nil
}

type nilPlaceholder struct{}

func (e *Engine) binop(s *State, op token.Token, a, b Value, xt types.Type, in ssa.Instruction) Value {
	switch op {
	case token.EQL:
		return e.eqValues(s, a, b)
	case token.NEQ:
		return Not(e.eqValues(s, a, b))
	}
	if sa, ok := a.(Str); ok {
		sb := b.(Str)
		switch op {
		case token.ADD:
			return Str{S: sa.S + sb.S, Sym: sa.Sym || sb.Sym}
		case token.LSS:
			return BoolConst(sa.S < sb.S)
		case token.LEQ:
			return BoolConst(sa.S <= sb.S)
		case token.GTR:
			return BoolConst(sa.S > sb.S)
		case token.GEQ:
			return BoolConst(sa.S >= sb.S)
		}
	}
	x, y := a.(*Term), b.(*Term)
	if x.S.K == KFP {
		switch op {
		case token.ADD:
			return FPAdd(x, y)
		case token.SUB:
			return FPSub(x, y)
		case token.MUL:
			return FPMul(x, y)
		case token.QUO:
			return FPDiv(x, y)
		case token.LSS:
			return FPLt(x, y)
		case token.LEQ:
			return FPLe(x, y)
		case token.GTR:
			return FPLt(y, x)
		case token.GEQ:
			return FPLe(y, x)
		}
		e.unsupportedf("float binop %v", op)
	}
	if x.S.K == KBool {
		switch op {
		case token.AND:
			return And(x, y)
		case token.OR:
			return Or(x, y)
		}
		e.unsupportedf("bool binop %v", op)
	}
	_, signed, _ := intInfo(xt)
	w := x.S.W
	switch op {
	case token.ADD:
		return BVAdd(x, y)
	case token.SUB:
		return BVSub(x, y)
	case token.MUL:
		return BVMul(x, y)
	case token.QUO, token.REM:
		e.check(s, Not(Eq(y, BVConst(w, 0))), "div-zero", "integer divide by zero")
		if signed {
			if op == token.QUO {
				return BVSDiv(x, y)
			}
			return BVSRem(x, y)
		}
		if op == token.QUO {
			return BVUDiv(x, y)
		}
		return BVURem(x, y)
	case token.AND:
		return BVAnd(x, y)
	case token.OR:
		return BVOr(x, y)
	case token.XOR:
		return BVXor(x, y)
	case token.AND_NOT:
		return BVAnd(x, BVNot(y))
	case token.SHL, token.SHR:
		// shift count: unsigned or (signed and must be >=0)
		yw := y.S.W
		var big *Term // condition: shift >= w
		var amt *Term
		if bo, ok := in.(*ssa.BinOp); ok {
			if _, ysigned, _ := intInfo(bo.Y.Type()); ysigned {
				e.check(s, Not(BVSlt(y, BVConst(yw, 0))), "neg-shift", "negative shift amount")
			}
		}
		if yw > w {
			big = Not(BVUlt(y, BVConst(yw, uint64(w))))
			amt = Extract(w-1, 0, y)
		} else {
			amt = ZExt(y, w)
			big = Not(BVUlt(amt, BVConst(w, uint64(w))))
		}
		var r *Term
		if op == token.SHL {
			r = Ite(big, BVConst(w, 0), BVShl(x, amt))
		} else if signed {
			r = Ite(big, BVAshr(x, BVConst(w, uint64(w-1))), BVAshr(x, amt))
		} else {
			r = Ite(big, BVConst(w, 0), BVLshr(x, amt))
		}
		return r
	case token.LSS:
		if signed {
			return BVSlt(x, y)
		}
		return BVUlt(x, y)
	case token.LEQ:
		if signed {
			return BVSle(x, y)
		}
		return BVUle(x, y)
	case token.GTR:
		if signed {
			return BVSlt(y, x)
		}
		return BVUlt(y, x)
	case token.GEQ:
		if signed {
			return BVSle(y, x)
		}
		return BVUle(y, x)
	}
	e.unsupportedf("binop %v", op)
	return nil
}

func (e *Engine) eqValues(s *State, a, b Value) *Term {
	// interface compared with nil etc.
	return valueEq(a, b)
}

// fpToInt converts float64 term to integer of width w per go/amd64 behaviour.
func fpToInt(x *Term, w int, signed bool) *Term {
	if x.Const {
		v := math.Float64frombits(x.CV)
		cv := func(v float64) uint64 { // cvttsd2si 64
			if math.IsNaN(v) || v >= 9223372036854775808.0 || v < -9223372036854775808.0 {
				return 0x8000000000000000
			}
			return uint64(int64(v))
		}
		cv32 := func(v float64) uint64 {
			if math.IsNaN(v) || v >= 2147483648.0 || v < -2147483649.0+1 && v <= -2147483649.0 {
				return 0x80000000
			}
			if v <= -2147483649.0 {
				return 0x80000000
			}
			return uint64(uint32(int32(v)))
		}
		switch {
		case w == 64 && signed:
			return BVConst(64, cv(v))
		case w == 64 && !signed:
			if v < 9223372036854775808.0 {
				return BVConst(64, cv(v))
			}
			return BVConst(64, cv(v-9223372036854775808.0)^0x8000000000000000)
		case w == 32 && !signed:
			return BVConst(32, cv(v))
		default:
			return BVConst(w, cv32(v))
		}
	}
	two63 := FPConst(9223372036854775808.0)
	conv64 := func(v *Term) *Term {
		inr := And(Not(FPIsNaN(v)), FPLt(v, two63), FPLe(FPConst(-9223372036854775808.0), v))
		return Ite(inr, FPToSBVRaw(v, 64), BVConst(64, 0x8000000000000000))
	}
	conv32 := func(v *Term) *Term {
		inr := And(Not(FPIsNaN(v)), FPLt(v, FPConst(2147483648.0)), FPLt(FPConst(-2147483649.0), v))
		return Ite(inr, FPToSBVRaw(v, 32), BVConst(32, 0x80000000))
	}
	switch {
	case w == 64 && signed:
		return conv64(x)
	case w == 64 && !signed:
		return Ite(FPLt(x, two63), conv64(x), BVXor(conv64(FPSub(x, two63)), BVConst(64, 0x8000000000000000)))
	case w == 32 && !signed:
		return Extract(31, 0, conv64(x))
	default:
		return Extract(w-1, 0, conv32(x))
	}
}

func (e *Engine) convert(s *State, v Value, from, to types.Type) Value {
	fw, fsigned, fint := intInfo(from)
	tw, tsigned, tint := intInfo(to)
	_ = fw
	switch {
	case fint && tint:
		x := v.(*Term)
		if tw <= x.S.W {
			return Extract(tw-1, 0, x)
		}
		if fsigned {
			return SExt(x, tw)
		}
		return ZExt(x, tw)
	case fint && isFloat(to):
		x := v.(*Term)
		if fsigned {
			return FPFromSBV(x)
		}
		return FPFromUBV(x)
	case isFloat(from) && tint:
		return fpToInt(v.(*Term), tw, tsigned)
	case isFloat(from) && isFloat(to):
		return v
	case isString(from) && isString(to):
		return v
	}
	// string <-> []byte
	if isString(from) {
		if sl, ok := to.Underlying().(*types.Slice); ok {
			st := v.(Str)
			if b, ok := sl.Elem().Underlying().(*types.Basic); ok && b.Kind() == types.Uint8 {
				id := s.allocMem(sl.Elem(), len(st.S), "string->bytes")
				o := s.wobj(id)
				for i := 0; i < len(st.S); i++ {
					o.Cells[i] = BVConst(8, uint64(st.S[i]))
				}
				return Slice{Obj: id, Len: i64(int64(len(st.S))), Cap: i64(int64(len(st.S)))}
			}
		}
	}
	if isString(to) {
		if sl, ok := v.(Slice); ok {
			if !sl.Len.Const {
				return Str{S: "<sym>", Sym: true}
			}
			n := int(sl.Len.CV)
			bs := make([]byte, n)
			o := s.obj(sl.Obj)
			for i := 0; i < n; i++ {
				c, _ := o.Cells[sl.Off+i].(*Term)
				if c == nil || !c.Const {
					return Str{S: "<sym>", Sym: true}
				}
				bs[i] = byte(c.CV)
			}
			return Str{S: string(bs)}
		}
		if x, ok := v.(*Term); ok && fint {
			if x.Const {
				return Str{S: string(rune(x.S64()))}
			}
			return Str{S: "<sym>", Sym: true}
		}
	}
	// pointer conversions (unsafe) and identical underlying types
	if _, ok := to.Underlying().(*types.Pointer); ok {
		return v
	}
	if b, ok := to.Underlying().(*types.Basic); ok && b.Kind() == types.UnsafePointer {
		return v
	}
	if types.Identical(from.Underlying(), to.Underlying()) {
		return v
	}
	e.unsupportedf("convert %v -> %v", from, to)
	return nil
}

func (e *Engine) typeAssert(s *State, f *Frame, x *ssa.TypeAssert) Value {
	iv := e.get(f, x.X).(Iface)
	at := x.AssertedType
	var ok bool
	var res Value
	if types.IsInterface(at) {
		if iv.T != nil {
			ok = types.Implements(iv.T, at.Underlying().(*types.Interface))
		}
		res = iv
		if !ok {
			res = Iface{}
		}
	} else {
		ok = iv.T != nil && types.Identical(iv.T, at)
		if ok {
			res = iv.V
		} else {
			res = zeroValue(at)
		}
	}
	if x.CommaOk {
		return Tuple{res, BoolConst(ok)}
	}
	if !ok {
		e.fail(s, "type-assert", fmt.Sprintf("interface conversion: %v is not %v", iv.T, at))
	}
	return res
}

// ---- calls

func (e *Engine) resolveCall(s *State, f *Frame, c *ssa.CallCommon) (Closure, []Value) {
	var args []Value
	if c.IsInvoke() {
		recv := e.get(f, c.Value).(Iface)
		if recv.T == nil {
			e.fail(s, "nil-deref", "method call on nil interface: "+c.Method.Name())
		}
		ms := e.prog.MethodSets.MethodSet(recv.T)
		sel := ms.Lookup(c.Method.Pkg(), c.Method.Name())
		if sel == nil {
			e.unsupportedf("method %s not found on %v", c.Method.Name(), recv.T)
		}
		fn := e.prog.MethodValue(sel)
		if fn == nil {
			e.unsupportedf("no ssa for method %s on %v", c.Method.Name(), recv.T)
		}
		args = append(args, recv.V)
		for _, a := range c.Args {
			args = append(args, e.get(f, a))
		}
		return Closure{Fn: fn}, args
	}
	fv := e.get(f, c.Value).(Closure)
	for _, a := range c.Args {
		args = append(args, e.get(f, a))
	}
	return fv, args
}

func (e *Engine) call(s *State, t *Thread, f *Frame, x *ssa.Call, c *ssa.CallCommon) stepResult {
	fn, args := e.resolveCall(s, f, c)
	return e.invoke(s, t, f, fn, args, x, true)
}

// invoke calls fn; if advance, the caller's pc is advanced after an intrinsic returns
// (for SSA functions, doReturn advances).
func (e *Engine) invoke(s *State, t *Thread, f *Frame, fn Closure, args []Value, result ssa.Value, advance bool) stepResult {
	cont := stepResult{kind: stepCont}
	if fn.IsNil() {
		e.fail(s, "nil-deref", "call of nil function")
	}
	if fn.Intr != "" {
		if fn.Recv != nil {
			args = append([]Value{fn.Recv}, args...)
		}
		rv, done := e.callIntrinsic(s, t, f, fn.Intr, args, result)
		if !done {
			return cont // blocked or frame pushed; intrinsic manages pc
		}
		if result != nil && advance {
			if rv == nil {
				rv = Tuple{}
			}
			e.set(f, result, rv)
		}
		if advance {
			f.pc++
		}
		return cont
	}
	name := fn.Fn.String()
	if e.initMode && fn.Fn.Name() == "init" && fn.Fn.Synthetic != "" {
		if advance {
			f.pc++
		}
		return cont
	}
	if r, ok := e.redirect[name]; ok {
		if rp := e.prog.ImportedPackage(rtPkg); rp != nil && rp.Func(r) != nil {
			fn = Closure{Fn: rp.Func(r)}
			name = fn.Fn.String()
		}
	}
	if ifn, ok := e.intr[name]; ok {
		e.stubsHit[name]++
		rv, done := ifn(e, s, t, f, args, result)
		if !done {
			return cont
		}
		if result != nil && advance {
			if rv == nil {
				rv = Tuple{}
			}
			e.set(f, result, rv)
		}
		if advance {
			f.pc++
		}
		return cont
	}
	if h := e.prefixIntrinsic(name); h != nil {
		e.stubsHit[name]++
		rv, done := h(e, s, t, f, args, result)
		if !done {
			return cont
		}
		if result != nil && advance {
			if rv == nil {
				rv = Tuple{}
			}
			e.set(f, result, rv)
		}
		if advance {
			f.pc++
		}
		return cont
	}
	if fn.Fn.Blocks == nil {
		e.unsupportedf("call to function without body: %s", name)
	}
	if len(t.frames) > 200 {
		e.unsupportedf("call depth > 200")
	}
	nf := e.newFrame(s, fn.Fn, args, fn.Binds, result)
	if !advance {
		nf.result = nil
	}
	t.frames = append(t.frames, nf)
	return cont
}

func (e *Engine) spawn(s *State, fn Closure, args []Value, label string) *Thread {
	nt := &Thread{id: len(s.threads), status: TRunnable, label: label}
	s.threads = append(s.threads, nt)
	if fn.Intr != "" {
		e.unsupportedf("go intrinsic %s", fn.Intr)
	}
	if _, ok := e.intr[fn.Fn.String()]; ok {
		e.unsupportedf("go of intrinsic function %s", fn.Fn.String())
	}
	nf := e.newFrame(s, fn.Fn, args, fn.Binds, nil)
	nt.frames = append(nt.frames, nf)
	return nt
}
