package main

// Constraint independence: a query only needs the path-condition conjuncts that share
// variables (transitively) with it; the rest is satisfiable on its own (pc is satisfiable).

var varsMemo = map[*Term][]int{}

func varsOfTerm(t *Term) []int {
	if v, ok := varsMemo[t]; ok {
		return v
	}
	seen := map[*Term]bool{}
	set := map[int]bool{}
	var st []*Term
	st = append(st, t)
	for len(st) > 0 {
		x := st[len(st)-1]
		st = st[:len(st)-1]
		if seen[x] {
			continue
		}
		seen[x] = true
		if x.Op == "var" {
			set[x.ID] = true
		}
		if x.Op == "uf" {
			set[-1-len(x.Name)] = true // all applications of a UF are related
		}
		st = append(st, x.Args...)
	}
	out := make([]int, 0, len(set))
	for k := range set {
		out = append(out, k)
	}
	varsMemo[t] = out
	return out
}

// slicePC returns the conjuncts of pc relevant to extra.
func slicePC(pc []*Term, extra []*Term) []*Term {
	if len(extra) == 0 || len(pc) < 3 {
		return pc
	}
	rel := map[int]bool{}
	for _, e := range extra {
		for _, v := range varsOfTerm(e) {
			rel[v] = true
		}
	}
	used := make([]bool, len(pc))
	pcv := make([][]int, len(pc))
	for i, c := range pc {
		pcv[i] = varsOfTerm(c)
	}
	changed := true
	for changed {
		changed = false
		for i := range pc {
			if used[i] {
				continue
			}
			hit := false
			for _, v := range pcv[i] {
				if rel[v] {
					hit = true
					break
				}
			}
			if hit {
				used[i] = true
				changed = true
				for _, v := range pcv[i] {
					rel[v] = true
				}
			}
		}
	}
	var out []*Term
	for i, c := range pc {
		if used[i] {
			out = append(out, c)
		}
	}
	return out
}
