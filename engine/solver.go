package main

import (
	"bufio"
	"fmt"
	"io"
	"math/big"
	"os"
	"os/exec"
	"sort"
	"strconv"
	"strings"
	"time"
)

type Result int

const (
	Unsat Result = iota
	Sat
	Unknown
)

func (r Result) String() string { return [...]string{"unsat", "sat", "unknown"}[r] }

type SolverProc struct {
	name    string
	cmd     *exec.Cmd
	in      io.WriteCloser
	out     *bufio.Reader
	defined map[int]bool
	ufs     map[string]bool
	log     *os.File
}

type SolverStats struct {
	Queries   int
	Sat       int
	Unsat     int
	Unknown   int
	CacheHits int
	Errors    int
	Restarts  int
	WallZ3    time.Duration
	WallCVC5  time.Duration
	QZ3       int
	QCVC5     int
	MaxQuery  time.Duration
}

type Solver struct {
	z3        *SolverProc
	cvc5      *SolverProc
	timeoutMs int
	cache     map[string]Result
	Stats     SolverStats
	logDir    string
	z3bin     string
	forceCVC5 bool
	Ctx       string
}

func NewSolver(timeoutMs int, z3bin string) *Solver {
	if z3bin == "" {
		z3bin = "z3"
	}
	return &Solver{timeoutMs: timeoutMs, cache: map[string]Result{}, z3bin: z3bin}
}

func (s *Solver) start(kind string) (*SolverProc, error) {
	var cmd *exec.Cmd
	if kind == "z3" {
		cmd = exec.Command(s.z3bin, "-in", fmt.Sprintf("-t:%d", s.timeoutMs))
	} else {
		cmd = exec.Command("cvc5", "--incremental", "--produce-models", fmt.Sprintf("--tlimit-per=%d", s.timeoutMs), "--fp-exp")
	}
	in, err := cmd.StdinPipe()
	if err != nil {
		return nil, err
	}
	out, err := cmd.StdoutPipe()
	if err != nil {
		return nil, err
	}
	cmd.Stderr = cmd.Stdout
	if err := cmd.Start(); err != nil {
		return nil, err
	}
	p := &SolverProc{name: kind, cmd: cmd, in: in, out: bufio.NewReaderSize(out, 1<<20), defined: map[int]bool{}, ufs: map[string]bool{}}
	if s.logDir != "" {
		p.log, _ = os.Create(fmt.Sprintf("%s/%s-%d.smt2", s.logDir, kind, os.Getpid()))
	}
	if kind == "z3" {
		p.send("(set-option :produce-models true)\n")
	} else {
		p.send("(set-logic ALL)\n")
	}
	return p, nil
}

func (p *SolverProc) send(s string) {
	if p.log != nil {
		p.log.WriteString(s)
	}
	io.WriteString(p.in, s)
}

func (p *SolverProc) readLine() (string, error) {
	l, err := p.out.ReadString('\n')
	return strings.TrimSpace(l), err
}

// readSexp reads a balanced s-expression (possibly multi-line).
func (p *SolverProc) readSexp() (string, error) {
	var sb strings.Builder
	depth := 0
	started := false
	inBar := false
	for {
		c, err := p.out.ReadByte()
		if err != nil {
			return sb.String(), err
		}
		sb.WriteByte(c)
		if inBar {
			if c == '|' {
				inBar = false
			}
			continue
		}
		switch c {
		case '|':
			inBar = true
		case '(':
			depth++
			started = true
		case ')':
			depth--
		}
		if started && depth == 0 {
			return sb.String(), nil
		}
		if !started && c == '\n' && strings.TrimSpace(sb.String()) != "" {
			return sb.String(), nil
		}
	}
}

func (p *SolverProc) define(ts []*Term) {
	if txt := p.defineText(ts); txt != "" {
		p.send(txt)
	}
}

func (p *SolverProc) defineText(ts []*Term) string {
	// iterative post-order
	var sb strings.Builder
	var stack []*Term
	for _, t := range ts {
		stack = append(stack, t)
	}
	type fr struct {
		t *Term
		i int
	}
	var st []fr
	for _, t := range ts {
		if t.Const || p.defined[t.ID] {
			continue
		}
		st = append(st, fr{t, 0})
		for len(st) > 0 {
			f := &st[len(st)-1]
			if f.t.Const || p.defined[f.t.ID] {
				st = st[:len(st)-1]
				continue
			}
			if f.i < len(f.t.Args) {
				a := f.t.Args[f.i]
				f.i++
				if !a.Const && !p.defined[a.ID] {
					st = append(st, fr{a, 0})
				}
				continue
			}
			t := f.t
			st = st[:len(st)-1]
			p.defined[t.ID] = true
			if t.Op == "var" {
				fmt.Fprintf(&sb, "(declare-const |%s| %s)\n", t.Name, t.S.String())
			} else {
				if t.Op == "uf" && !p.ufs[t.Name] {
					p.ufs[t.Name] = true
					sb.WriteString(TF.ufs[t.Name] + "\n")
				}
				fmt.Fprintf(&sb, "(define-fun t%d () %s %s)\n", t.ID, t.S.String(), t.body())
			}
		}
	}
	return sb.String()
}

func cacheKey(as []*Term) string {
	ids := make([]int, len(as))
	for i, a := range as {
		ids[i] = a.ID
	}
	sort.Ints(ids)
	var sb strings.Builder
	for _, i := range ids {
		sb.WriteString(strconv.Itoa(i))
		sb.WriteByte(',')
	}
	return sb.String()
}

// Check decides satisfiability of the conjunction. If wantModel and sat, returns values for vars.
func (s *Solver) Check(as []*Term, wantModel bool) (Result, Model) {
	// trivial cases
	var live []*Term
	for _, a := range as {
		if a.IsFalse() {
			return Unsat, nil
		}
		if a.IsTrue() {
			continue
		}
		live = append(live, a)
	}
	if len(live) == 0 {
		return Sat, Model{}
	}
	key := cacheKey(live)
	if !wantModel {
		if r, ok := s.cache[key]; ok {
			s.Stats.CacheHits++
			return r, nil
		}
	} else if r, ok := s.cache[key]; ok && r != Sat {
		s.Stats.CacheHits++
		return r, nil
	}
	useCVC5 := s.forceCVC5
	for _, a := range live {
		if a.HasFP {
			useCVC5 = true
		}
	}
	if useCVC5 && !s.forceCVC5 {
		return s.checkOneShot(live, wantModel, key, "fp")
	}
	hasDiv := false
	if !s.forceCVC5 {
		for _, a := range live {
			if a.HasDiv {
				hasDiv = true
			}
		}
	}
	var p *SolverProc
	var err error
	if useCVC5 {
		if s.cvc5 == nil {
			s.cvc5, err = s.start("cvc5")
		}
		p = s.cvc5
	} else {
		if s.z3 == nil {
			s.z3, err = s.start("z3")
		}
		p = s.z3
	}
	if err != nil || p == nil {
		fmt.Fprintln(os.Stderr, "solver start failed:", err)
		s.Stats.Errors++
		return Unknown, nil
	}
	if !useCVC5 && len(p.defined) > 100000 {
		// a long-lived z3 slows down with the number of definitions it holds: start afresh
		p.in.Close()
		p.cmd.Process.Kill()
		p.cmd.Wait()
		s.z3, err = s.start("z3")
		if err != nil || s.z3 == nil {
			fmt.Fprintln(os.Stderr, "solver restart failed:", err)
			s.Stats.Errors++
			return Unknown, nil
		}
		p = s.z3
		s.Stats.Restarts++
	}
	t0 := time.Now()
	p.define(live)
	var sb strings.Builder
	sb.WriteString("(push 1)\n")
	if hasDiv && p.name == "z3" {
		sb.WriteString("(set-option :timeout 1500)\n") // quick attempt; hard ones go to the portfolio
	}
	for _, a := range live {
		fmt.Fprintf(&sb, "(assert %s)\n", a.ref())
	}
	sb.WriteString("(check-sat)\n")
	p.send(sb.String())
	res := Unknown
	for {
		line, err := p.readLine()
		if err != nil {
			fmt.Fprintln(os.Stderr, "solver died:", p.name, err)
			s.Stats.Errors++
			if useCVC5 {
				s.cvc5 = nil
			} else {
				s.z3 = nil
			}
			return Unknown, nil
		}
		if line == "" {
			continue
		}
		if line == "sat" {
			res = Sat
			break
		}
		if line == "unsat" {
			res = Unsat
			break
		}
		if line == "unknown" || strings.HasPrefix(line, "timeout") {
			res = Unknown
			break
		}
		if strings.Contains(line, "error") {
			fmt.Fprintln(os.Stderr, "solver error:", p.name, line)
			s.Stats.Errors++
			// keep reading until we get the check-sat answer
			continue
		}
		if strings.Contains(line, "interrupted") || strings.Contains(line, "resourceout") {
			continue
		}
		fmt.Fprintln(os.Stderr, "solver says:", p.name, line)
	}
	var model Model
	if res == Sat && wantModel {
		var vars []*Term
		CollectVars(live, map[*Term]bool{}, &vars)
		model = Model{}
		if len(vars) > 0 {
			var q strings.Builder
			q.WriteString("(get-value (")
			for _, v := range vars {
				q.WriteString(v.ref() + " ")
			}
			q.WriteString("))\n")
			p.send(q.String())
			txt, err := p.readSexp()
			if err == nil {
				parseModel(txt, vars, model)
			}
		}
	}
	p.send("(pop 1)\n")
	if hasDiv && p.name == "z3" {
		p.send(fmt.Sprintf("(set-option :timeout %d)\n", s.timeoutMs))
		if res == Unknown {
			s.Stats.WallZ3 += time.Since(t0)
			return s.checkOneShot(live, wantModel, key, "div")
		}
	}
	d := time.Since(t0)
	if useCVC5 {
		s.Stats.WallCVC5 += d
		s.Stats.QCVC5++
	} else {
		s.Stats.WallZ3 += d
		s.Stats.QZ3++
	}
	if d > 2*time.Second && os.Getenv("GOSYM_DEBUG") != "" {
		fmt.Fprintf(os.Stderr, "[slow query] %.1fs %s result=%v nassert=%d ctx=%s\n", d.Seconds(), p.name, res, len(live), s.Ctx)
	}
	if d > s.Stats.MaxQuery {
		s.Stats.MaxQuery = d
	}
	s.Stats.Queries++
	if s.Stats.Queries%20 == 0 && os.Getenv("GOSYM_DEBUG") != "" {
		fmt.Fprintf(os.Stderr, "[query %d] ctx=%s res=%v nassert=%d\n", s.Stats.Queries, s.Ctx, res, len(live))
	}
	switch res {
	case Sat:
		s.Stats.Sat++
	case Unsat:
		s.Stats.Unsat++
	default:
		s.Stats.Unknown++
	}
	if s.Stats.Errors > 0 && res != Sat {
		// an error line may have dropped an assertion: do not trust unsat
	}
	s.cache[key] = res
	return res, model
}

func (s *Solver) Close() {
	for _, p := range []*SolverProc{s.z3, s.cvc5} {
		if p != nil {
			p.send("(exit)\n")
			p.in.Close()
			done := make(chan struct{})
			go func() { p.cmd.Wait(); close(done) }()
			select {
			case <-done:
			case <-time.After(2 * time.Second):
				p.cmd.Process.Kill()
			}
		}
	}
}

// ---- model parsing

type sexp struct {
	atom string
	list []*sexp
}

func parseSexp(s string, pos *int) *sexp {
	for *pos < len(s) && (s[*pos] == ' ' || s[*pos] == '\n' || s[*pos] == '\t' || s[*pos] == '\r') {
		*pos++
	}
	if *pos >= len(s) {
		return nil
	}
	if s[*pos] == '(' {
		*pos++
		n := &sexp{}
		for {
			for *pos < len(s) && (s[*pos] == ' ' || s[*pos] == '\n' || s[*pos] == '\t' || s[*pos] == '\r') {
				*pos++
			}
			if *pos >= len(s) {
				return n
			}
			if s[*pos] == ')' {
				*pos++
				return n
			}
			c := parseSexp(s, pos)
			if c == nil {
				return n
			}
			n.list = append(n.list, c)
		}
	}
	st := *pos
	if s[*pos] == '|' {
		*pos++
		for *pos < len(s) && s[*pos] != '|' {
			*pos++
		}
		*pos++
		return &sexp{atom: s[st:*pos]}
	}
	for *pos < len(s) && s[*pos] != ' ' && s[*pos] != ')' && s[*pos] != '(' && s[*pos] != '\n' {
		*pos++
	}
	return &sexp{atom: s[st:*pos]}
}

func bitsOf(a string) (*big.Int, int, bool) {
	if strings.HasPrefix(a, "#x") {
		v, ok := new(big.Int).SetString(a[2:], 16)
		return v, 4 * (len(a) - 2), ok
	}
	if strings.HasPrefix(a, "#b") {
		v, ok := new(big.Int).SetString(a[2:], 2)
		return v, len(a) - 2, ok
	}
	return nil, 0, false
}

func parseModel(txt string, vars []*Term, m Model) {
	pos := 0
	root := parseSexp(txt, &pos)
	if root == nil {
		return
	}
	byName := map[string]*Term{}
	for _, v := range vars {
		byName["|"+v.Name+"|"] = v
		byName[v.Name] = v
	}
	for _, pr := range root.list {
		if len(pr.list) != 2 {
			continue
		}
		v := byName[pr.list[0].atom]
		if v == nil {
			continue
		}
		val := pr.list[1]
		switch v.S.K {
		case KBool:
			m[v] = BoolConst(val.atom == "true")
		case KBV:
			if val.atom != "" {
				if b, _, ok := bitsOf(val.atom); ok {
					m[v] = BVConstBig(v.S.W, b)
				}
			} else if len(val.list) == 3 && val.list[0].atom == "_" && strings.HasPrefix(val.list[1].atom, "bv") {
				b, ok := new(big.Int).SetString(val.list[1].atom[2:], 10)
				if ok {
					m[v] = BVConstBig(v.S.W, b)
				}
			}
		case KFP:
			if len(val.list) == 4 && val.list[0].atom == "fp" {
				sg, _, _ := bitsOf(val.list[1].atom)
				ex, _, _ := bitsOf(val.list[2].atom)
				mn, _, _ := bitsOf(val.list[3].atom)
				if sg != nil && ex != nil && mn != nil {
					bits := sg.Uint64()<<63 | ex.Uint64()<<52 | mn.Uint64()
					m[v] = TF.mk(&Term{Op: "const", S: SFP, Const: true, CV: bits})
				}
			} else if len(val.list) >= 2 && val.list[0].atom == "_" {
				switch val.list[1].atom {
				case "+zero":
					m[v] = FPConst(0)
				case "-zero":
					m[v] = TF.mk(&Term{Op: "const", S: SFP, Const: true, CV: 1 << 63})
				case "+oo":
					m[v] = TF.mk(&Term{Op: "const", S: SFP, Const: true, CV: 0x7ff << 52})
				case "-oo":
					m[v] = TF.mk(&Term{Op: "const", S: SFP, Const: true, CV: 0xfff << 52})
				case "NaN":
					m[v] = TF.mk(&Term{Op: "const", S: SFP, Const: true, CV: 0x7ff8 << 48})
				}
			}
		}
	}
}

// checkOneShot runs cvc5 non-incrementally on a self-contained script (much faster for floating point).
func (s *Solver) checkOneShot(live []*Term, wantModel bool, key string, kind string) (Result, Model) {
	t0 := time.Now()
	tmp := &SolverProc{name: "cvc5-oneshot", defined: map[int]bool{}, ufs: map[string]bool{}}
	var sb strings.Builder
	sb.WriteString("(set-logic ALL)\n")
	sb.WriteString(tmp.defineText(live))
	for _, a := range live {
		fmt.Fprintf(&sb, "(assert %s)\n", a.ref())
	}
	sb.WriteString("(check-sat)\n")
	var vars []*Term
	if wantModel {
		CollectVars(live, map[*Term]bool{}, &vars)
		if len(vars) > 0 {
			sb.WriteString("(get-value (")
			for _, v := range vars {
				sb.WriteString(v.ref() + " ")
			}
			sb.WriteString("))\n")
		}
	}
	if s.logDir != "" {
		os.WriteFile(fmt.Sprintf("%s/cvc5-oneshot-%d-%d.smt2", s.logDir, os.Getpid(), s.Stats.Queries), []byte(sb.String()), 0o644)
	}
	// portfolio: cvc5 and z3 race on the same script; first definitive answer wins
	type ans struct {
		res Result
		out string
		who string
	}
	ch := make(chan ans, 2)
	script := sb.String()
	cvc5args := []string{"--produce-models", fmt.Sprintf("--tlimit=%d", s.timeoutMs), "--fp-exp", "--lang=smt2"}
	if kind == "div" {
		cvc5args = []string{"--produce-models", fmt.Sprintf("--tlimit=%d", s.timeoutMs), "--solve-bv-as-int=sum", "--lang=smt2"}
	}
	cmds := []*exec.Cmd{
		exec.Command("cvc5", cvc5args...),
		exec.Command(s.z3bin, "-in", fmt.Sprintf("-T:%d", s.timeoutMs/1000+1)),
	}
	for i, c := range cmds {
		c := c
		who := []string{"cvc5", "z3"}[i]
		c.Stdin = strings.NewReader(script)
		go func() {
			outb, _ := c.CombinedOutput()
			out := string(outb)
			r := Unknown
			first := strings.TrimSpace(strings.SplitN(out, "\n", 2)[0])
			switch first {
			case "sat":
				r = Sat
			case "unsat":
				r = Unsat
			}
			if strings.Contains(first, "error") {
				fmt.Fprintln(os.Stderr, "solver error ("+who+" one-shot):", first)
			}
			ch <- ans{r, out, who}
		}()
	}
	res := Unknown
	out := ""
	for i := 0; i < 2; i++ {
		a := <-ch
		if a.res != Unknown {
			res, out = a.res, a.out
			break
		}
	}
	for _, c := range cmds {
		if c.Process != nil {
			c.Process.Kill()
		}
	}
	var model Model
	if res == Sat && wantModel {
		model = Model{}
		if i := strings.Index(out, "\n"); i >= 0 && len(vars) > 0 {
			parseModel(out[i+1:], vars, model)
		}
	}
	d := time.Since(t0)
	s.Stats.WallCVC5 += d
	s.Stats.QCVC5++
	if d > s.Stats.MaxQuery {
		s.Stats.MaxQuery = d
	}
	if d > 2*time.Second && os.Getenv("GOSYM_DEBUG") != "" {
		fmt.Fprintf(os.Stderr, "[slow query] %.1fs cvc5-oneshot result=%v nassert=%d ctx=%s\n", d.Seconds(), res, len(live), s.Ctx)
	}
	s.Stats.Queries++
	switch res {
	case Sat:
		s.Stats.Sat++
	case Unsat:
		s.Stats.Unsat++
	default:
		s.Stats.Unknown++
	}
	s.cache[key] = res
	return res, model
}
