package main

func locksetAccessImpl(e *Engine, s *State, p Ptr, n int, write bool) {}

func (e *Engine) setupRedirects() {
	e.redirect = map[string]string{
		"errors.Is": "ErrorsIs",
	}
}
