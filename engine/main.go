package main

import (
	"encoding/json"
	"flag"
	"fmt"
	"go/token"
	"go/types"
	"os"
	"runtime/pprof"
	"sort"
	"strconv"
	"strings"
	"time"

	"golang.org/x/tools/go/packages"
	"golang.org/x/tools/go/ssa"
	"golang.org/x/tools/go/ssa/ssautil"
)

type Output struct {
	Harness      string            `json:"harness"`
	Pkg          string            `json:"pkg"`
	Config       map[string]int64  `json:"config"`
	Unwind       int               `json:"unwind"`
	Violations   []Violation       `json:"violations"`
	Inconclusive []string          `json:"inconclusive"`
	CoversDecl   []string          `json:"covers_declared"`
	CoversHit    []string          `json:"covers_hit"`
	Paths        int               `json:"paths_completed"`
	PathsPruned  int               `json:"paths_infeasible"`
	PathsAborted int               `json:"paths_aborted"`
	Merges       int               `json:"merges"`
	Forks        int               `json:"forks"`
	Branches     int               `json:"branch_decisions"`
	Sched        int               `json:"sched_decisions"`
	Asserts      int               `json:"assert_queries"`
	Implicit     int               `json:"implicit_check_queries"`
	Solver       SolverStats       `json:"solver"`
	Functions    map[string]int    `json:"functions_encoded"`
	Stubs        map[string]int    `json:"stubs_hit"`
	Witnesses    []Witness         `json:"witnesses"`
	WallS        float64           `json:"wall_s"`
	LoadS        float64           `json:"load_s"`
	MaxSteps     int               `json:"max_path_steps"`
	Terms        int               `json:"terms"`
	KFSeen       []string          `json:"known_findings_seen"`
	InitWarn     []string          `json:"init_warnings,omitempty"`
}

type kvList []string

func (k *kvList) String() string     { return strings.Join(*k, ",") }
func (k *kvList) Set(v string) error { *k = append(*k, v); return nil }

var paramInts = map[string]int64{}

func main() {
	var (
		repo     = flag.String("repo", "/repo", "repository root")
		pkgPath  = flag.String("pkg", "", "package import path (relative to module ok: ./pkg/nack)")
		overlayF = flag.String("overlay", "", "overlay json (go build -overlay format)")
		entry    = flag.String("entry", "", "harness function name")
		outF     = flag.String("out", "", "output json")
		unwind   = flag.Int("unwind", 300, "loop unwinding bound per frame/block")
		maxSteps = flag.Int("maxsteps", 5000000, "max instructions per path")
		maxPaths = flag.Int("maxpaths", 200000, "max paths")
		timeout  = flag.Int("qtimeout", 60000, "per-query timeout ms")
		noMerge  = flag.Bool("nomerge", false, "disable join-point merging")
		trace    = flag.Bool("trace", false, "trace instructions")
		z3bin    = flag.String("z3", "z3-new", "z3 binary")
		preempt  = flag.Int("preempt", 0, "schedule forking (0: deterministic lowest-id)")
		lockset  = flag.Bool("lockset", false, "lock discipline tracking")
		concMax  = flag.Int("concmax", 64, "max values when concretizing")
		wit      = flag.Int("witnesses", 3, "witness paths to extract")
		kfs      = flag.String("known", "", "comma separated known-finding ids that are listed as known")
		logDir   = flag.String("smtlog", "", "directory for smt logs")
		noSlice  = flag.Bool("noslice", false, "disable constraint-independence slicing")
		noLazy   = flag.Bool("nolazy", false, "eager feasibility checks at every branch")
		unwindV  = flag.Bool("unwindviol", false, "treat unwind bound excess as violation (loop-forever check)")
		forceCVC = flag.Bool("cvc5", false, "send all queries to cvc5")
		stopViol = flag.Int("stopviol", 0, "stop exploring after this many distinct violations that are not known findings (0: explore everything)")
		sets     kvList
	)
	flag.Var(&sets, "set", "k=v integer parameter")
	flag.Parse()
	for _, kv := range sets {
		p := strings.SplitN(kv, "=", 2)
		if len(p) == 2 {
			v, _ := strconv.ParseInt(p[1], 0, 64)
			paramInts[p[0]] = v
		}
	}
	t0 := time.Now()
	overlay := map[string][]byte{}
	if *overlayF != "" {
		b, err := os.ReadFile(*overlayF)
		if err != nil {
			fatal(err)
		}
		var ov struct{ Replace map[string]string }
		if err := json.Unmarshal(b, &ov); err != nil {
			fatal(err)
		}
		for virt, real := range ov.Replace {
			c, err := os.ReadFile(real)
			if err != nil {
				fatal(err)
			}
			overlay[virt] = c
		}
	}
	fset := token.NewFileSet()
	cfg := &packages.Config{
		Mode:       packages.LoadAllSyntax,
		Dir:        *repo,
		Fset:       fset,
		Overlay:    overlay,
		BuildFlags: []string{"-tags=verif"},
		Env:        os.Environ(),
	}
	pkgs, err := packages.Load(cfg, *pkgPath)
	if err != nil {
		fatal(err)
	}
	if packages.PrintErrors(pkgs) > 0 {
		fatal(fmt.Errorf("package load errors"))
	}
	prog, spkgs := ssautil.AllPackages(pkgs, ssa.InstantiateGenerics|ssa.SanityCheckFunctions*0)
	prog.Build()
	main := spkgs[0]
	loadS := time.Since(t0).Seconds()

	e := &Engine{prog: prog, fset: fset, infos: map[*ssa.Function]*fnInfo{}, globals: map[*ssa.Global]int{},
		violKeys: map[string]bool{}, incKeys: map[string]bool{}, coversHit: map[string]bool{}, coversDecl: map[string]bool{},
		fnsExecuted: map[string]int{}, stubsHit: map[string]int{}, assumptions: map[string]int{}, kfSeen: map[string]bool{}}
	e.cfg = Config{Unwind: *unwind, MaxSteps: *maxSteps, Merge: !*noMerge, MaxPaths: *maxPaths, StopViol: *stopViol, Trace: *trace, Preempt: *preempt,
		Lockset: *lockset, ConcMax: *concMax, Witnesses: *wit, KnownKF: map[string]bool{}, UnwindViol: *unwindV}
	e.cfg.Lazy = !*noLazy
	e.cfg.NoSlice = *noSlice
	e.cfg.Debug = os.Getenv("GOSYM_DEBUG") != ""
	for _, k := range strings.Split(*kfs, ",") {
		if k != "" {
			e.cfg.KnownKF[k] = true
		}
	}
	e.solver = NewSolver(*timeout, *z3bin)
	e.solver.logDir = *logDir
	e.solver.forceCVC5 = *forceCVC
	defer e.solver.Close()
	e.errType = types.Universe.Lookup("error").Type()
	e.setupIntrinsics()
	e.setupRedirects()

	root := &State{id: newStateID(), heap: []*Object{nil}, facts: map[int]*Term{}, covers: map[string]bool{}, pools: map[addr][]Value{},
		syncMaps: map[addr]int{}, lockOwner: map[addr]int{}, rlockCnt: map[addr]int{}, kf: map[string]*Term{}, ghost: map[string]Value{},
		tickBudget: map[int]int{}, locksHeld: map[int][]addr{}, atomicCells: map[addr]bool{}, plainCells: map[addr]string{}, models: []Model{{}}}
	// globals
	for _, p := range prog.AllPackages() {
		for _, m := range p.Members {
			if g, ok := m.(*ssa.Global); ok {
				id := root.allocMem(g.Type().(*types.Pointer).Elem(), 1, "global "+g.String())
				e.globals[g] = id
			}
		}
	}
	root.allocLog = nil
	// package init (allow-listed packages only)
	initWarn := e.runInit(root, main)
	root.nondets = nil
	root.steps = 0

	fn := main.Func(*entry)
	if fn == nil {
		fatal(fmt.Errorf("entry %s not found in %s", *entry, main.Pkg.Path()))
	}
	th := &Thread{id: 0, status: TRunnable, isHarness: true}
	th.frames = []*Frame{e.newFrame(root, fn, nil, nil, nil)}
	root.threads = []*Thread{th}
	root.cur = 0
	e.initDone = true
	if os.Getenv("GOSYM_DEBUG") != "" {
		go func() {
			for {
				time.Sleep(10 * time.Second)
				st := e.solver.Stats
				fmt.Fprintln(os.Stderr, "[aborts]", abortReasons, e.inconclusive)
				fmt.Fprintf(os.Stderr, "[progress] paths=%d aborted=%d merges=%d forks=%d queries=%d z3=%.1fs max=%.1fs terms=%d wall=%.0fs\n",
					e.pathsDone, e.pathsPanic, e.merges, e.forks, st.Queries, st.WallZ3.Seconds(), st.MaxQuery.Seconds(), len(TF.all), time.Since(t0).Seconds())
			}
		}()
	}
	if pf := os.Getenv("GOSYM_PROF"); pf != "" {
		fh, _ := os.Create(pf)
		pprof.StartCPUProfile(fh)
		go func() { time.Sleep(60 * time.Second); pprof.StopCPUProfile(); fh.Close() }()
	}
	rest := e.run(root, nil, 0)
	_ = rest

	out := Output{Harness: *entry, Pkg: main.Pkg.Path(), Config: paramInts, Unwind: *unwind, Violations: e.violations, Inconclusive: e.inconclusive,
		Paths: e.pathsDone, PathsPruned: e.pathsInfeasible, PathsAborted: e.pathsPanic, Merges: e.merges, Forks: e.forks,
		Branches: e.branchDecisions, Sched: e.schedDecisions, Asserts: e.assertsChecked, Implicit: e.implicitChecked,
		Solver: e.solver.Stats, Functions: map[string]int{}, Stubs: e.stubsHit, Witnesses: e.witnesses,
		WallS: time.Since(t0).Seconds(), LoadS: loadS, MaxSteps: e.maxStepsSeen, Terms: len(TF.all), InitWarn: initWarn}
	for k, v := range e.fnsExecuted {
		if !strings.HasSuffix(k, ".init") && !strings.Contains(k, ".init#") {
			out.Functions[k] = v
		}
	}
	for k := range e.coversDecl {
		out.CoversDecl = append(out.CoversDecl, k)
	}
	for k := range e.coversHit {
		out.CoversHit = append(out.CoversHit, k)
	}
	for k := range e.kfSeen {
		out.KFSeen = append(out.KFSeen, k)
	}
	sort.Strings(out.CoversDecl)
	sort.Strings(out.CoversHit)
	sort.Strings(out.KFSeen)
	if e.solver.Stats.Errors > 0 {
		out.Inconclusive = append(out.Inconclusive, fmt.Sprintf("solver reported %d error lines", e.solver.Stats.Errors))
	}
	if os.Getenv("GOSYM_DEBUG") != "" {
		fmt.Fprintln(os.Stderr, "aborts:", abortReasons)
		fmt.Fprintln(os.Stderr, "merge failures by site:", mergeFailCounts)
		fmt.Fprintln(os.Stderr, "fork sites:", forkSites)
		fmt.Fprintln(os.Stderr, "nomerge (arms):", noMergeArms)
	}
	b, _ := json.MarshalIndent(out, "", " ")
	if *outF != "" {
		os.WriteFile(*outF, b, 0o644)
	} else {
		os.Stdout.Write(b)
		fmt.Println()
	}
	fmt.Fprintf(os.Stderr, "%s: paths=%d aborted=%d pruned=%d merges=%d violations=%d inconclusive=%d queries=%d (z3 %.1fs, cvc5 %.1fs) wall=%.1fs\n",
		*entry, e.pathsDone, e.pathsPanic, e.pathsInfeasible, e.merges, len(e.violations), len(out.Inconclusive), e.solver.Stats.Queries,
		e.solver.Stats.WallZ3.Seconds(), e.solver.Stats.WallCVC5.Seconds(), time.Since(t0).Seconds())
}

func fatal(err error) {
	fmt.Fprintln(os.Stderr, "gosym:", err)
	os.Exit(3)
}

var initAllow = []string{"github.com/pion/", "errors", "io", "golang.org/x/time/rate", "container/list", "unicode/utf8", "io/fs", "internal/oserror"}

func initAllowed(path string) bool {
	for _, p := range initAllow {
		if path == p || strings.HasSuffix(p, "/") && strings.HasPrefix(path, p) {
			return true
		}
	}
	return false
}

// runInit executes init of allow-listed packages concretely on root (dependency order via ssa init calls).
func (e *Engine) runInit(root *State, main *ssa.Package) []string {
	var warns []string
	done := map[*ssa.Package]bool{}
	var visit func(p *ssa.Package)
	var order []*ssa.Package
	visit = func(p *ssa.Package) {
		if done[p] {
			return
		}
		done[p] = true
		for _, imp := range p.Pkg.Imports() {
			if ip := e.prog.Package(imp); ip != nil {
				visit(ip)
			}
		}
		order = append(order, p)
	}
	visit(main)
	// intercept nested init calls: each package's init is run by us exactly once
	for _, p := range order {
		if !initAllowed(p.Pkg.Path()) {
			continue
		}
		fn := p.Func("init")
		if fn == nil || fn.Blocks == nil {
			continue
		}
		// mark guard to skip: we run the body but nested X.init calls are no-ops (see invoke)
		th := &Thread{id: 0, status: TRunnable}
		th.frames = []*Frame{e.newFrame(root, fn, nil, nil, nil)}
		root.threads = []*Thread{th}
		root.cur = 0
		before := len(e.inconclusive)
		nv := len(e.violations)
		e.initMode = true
		e.run(root, nil, 0)
		e.initMode = false
		if len(e.inconclusive) > before || len(e.violations) > nv {
			for _, m := range e.inconclusive[before:] {
				warns = append(warns, p.Pkg.Path()+": "+m)
			}
			for _, v := range e.violations[nv:] {
				warns = append(warns, p.Pkg.Path()+": "+v.Kind+" "+v.Msg+" at "+v.Pos)
			}
			e.inconclusive = e.inconclusive[:before]
			e.violations = e.violations[:nv]
			for k := range e.incKeys {
				delete(e.incKeys, k)
			}
		}
	}
	e.pathsDone, e.pathsPanic, e.pathsInfeasible = 0, 0, 0
	e.stopNow = false
	e.fnsExecuted = map[string]int{}
	e.stubsHit = map[string]int{}
	e.witnesses = nil
	return warns
}
