package main

import (
	"fmt"
	"go/types"

	"golang.org/x/tools/go/ssa"
)

type Value interface{}

// Ptr is a pointer to slot Off (+ Sym*Stride) of object Obj. Obj==0: nil.
type Ptr struct {
	Obj    int
	Off    int
	Sym    *Term // optional symbolic index (64-bit BV), in [0,Cnt)
	Stride int
	Cnt    int
}

type Slice struct {
	Obj int
	Off int
	Len *Term
	Cap *Term
}

type Str struct {
	S   string
	Sym bool // content derived from symbolic bytes (only length/identity is meaningful)
}

type Iface struct {
	T types.Type // nil => nil interface
	V Value
}

type MapRef struct{ Obj int }
type ChanRef struct{ Obj int }

type Closure struct {
	Fn    *ssa.Function
	Binds []Value
	Intr  string // intrinsic / bound-method marker
	Recv  Value  // for bound intrinsic methods
}

type Agg []Value
type Tuple []Value

// range iterator
type Iter struct {
	Map  int   // map object id (0 if string)
	Keys []int // snapshot of entry indices
	Pos  int
	Str  string
}

func (c Closure) IsNil() bool { return c.Fn == nil && c.Intr == "" }

var i64 = func(v int64) *Term { return BVConstS(64, v) }

// ---- type layout

type layoutInfo struct {
	n      int
	fields []int // struct field offsets
}

var layoutCache = map[types.Type]*layoutInfo{}

func layout(t types.Type) *layoutInfo {
	if l, ok := layoutCache[t]; ok {
		return l
	}
	l := &layoutInfo{}
	switch u := t.Underlying().(type) {
	case *types.Struct:
		off := 0
		for i := 0; i < u.NumFields(); i++ {
			l.fields = append(l.fields, off)
			off += layout(u.Field(i).Type()).n
		}
		l.n = off
	case *types.Array:
		l.n = int(u.Len()) * layout(u.Elem()).n
	case *types.Tuple:
		for i := 0; i < u.Len(); i++ {
			l.n += layout(u.At(i).Type()).n
		}
	default:
		l.n = 1
	}
	layoutCache[t] = l
	return l
}

func slots(t types.Type) int { return layout(t).n }

func isAggType(t types.Type) bool {
	switch t.Underlying().(type) {
	case *types.Struct, *types.Array:
		return true
	}
	return false
}

func basicWidth(b *types.Basic) (w int, signed bool, ok bool) {
	switch b.Kind() {
	case types.Int8:
		return 8, true, true
	case types.Int16:
		return 16, true, true
	case types.Int32:
		return 32, true, true
	case types.Int64, types.Int:
		return 64, true, true
	case types.Uint8:
		return 8, false, true
	case types.Uint16:
		return 16, false, true
	case types.Uint32:
		return 32, false, true
	case types.Uint64, types.Uint, types.Uintptr:
		return 64, false, true
	case types.UntypedInt, types.UntypedRune:
		return 64, true, true
	}
	return 0, false, false
}

func intInfo(t types.Type) (w int, signed bool, ok bool) {
	if tp, isTP := t.(*types.TypeParam); isTP {
		_ = tp
		return 0, false, false
	}
	b, isB := t.Underlying().(*types.Basic)
	if !isB {
		return 0, false, false
	}
	return basicWidth(b)
}

func isFloat(t types.Type) bool {
	b, ok := t.Underlying().(*types.Basic)
	return ok && (b.Kind() == types.Float64 || b.Kind() == types.Float32 || b.Kind() == types.UntypedFloat)
}
func isBool(t types.Type) bool {
	b, ok := t.Underlying().(*types.Basic)
	return ok && (b.Kind() == types.Bool || b.Kind() == types.UntypedBool)
}
func isString(t types.Type) bool {
	b, ok := t.Underlying().(*types.Basic)
	return ok && (b.Kind() == types.String || b.Kind() == types.UntypedString)
}

// zeroLeaf returns the zero value for a 1-slot type.
func zeroLeaf(t types.Type) Value {
	switch u := t.Underlying().(type) {
	case *types.Basic:
		if w, _, ok := basicWidth(u); ok {
			return BVConst(w, 0)
		}
		switch u.Kind() {
		case types.Bool, types.UntypedBool:
			return TFalse
		case types.Float64, types.Float32, types.UntypedFloat:
			return FPConst(0)
		case types.String, types.UntypedString:
			return Str{}
		case types.UnsafePointer:
			return Ptr{}
		case types.UntypedNil:
			return Ptr{}
		}
	case *types.Pointer:
		return Ptr{}
	case *types.Slice:
		return Slice{Len: i64(0), Cap: i64(0)}
	case *types.Map:
		return MapRef{}
	case *types.Chan:
		return ChanRef{}
	case *types.Signature:
		return Closure{}
	case *types.Interface:
		return Iface{}
	}
	panic(fmt.Sprintf("zeroLeaf: unsupported type %v", t))
}

func zeroSlots(t types.Type, out []Value) []Value {
	switch u := t.Underlying().(type) {
	case *types.Struct:
		for i := 0; i < u.NumFields(); i++ {
			out = zeroSlots(u.Field(i).Type(), out)
		}
		return out
	case *types.Array:
		if u.Len() == 0 {
			return out
		}
		st := len(out)
		out = zeroSlots(u.Elem(), out)
		per := len(out) - st
		for i := int64(1); i < u.Len(); i++ {
			out = append(out, out[st:st+per]...)
		}
		return out
	}
	return append(out, zeroLeaf(t))
}

func zeroValue(t types.Type) Value {
	if isAggType(t) {
		return Agg(zeroSlots(t, nil))
	}
	if tup, ok := t.(*types.Tuple); ok {
		r := make(Tuple, tup.Len())
		for i := range r {
			r[i] = zeroValue(tup.At(i).Type())
		}
		return r
	}
	return zeroLeaf(t)
}

// flatten converts a Value of type t into its slots.
func flatten(v Value) []Value {
	if a, ok := v.(Agg); ok {
		return a
	}
	return []Value{v}
}

func unflatten(t types.Type, cells []Value) Value {
	if isAggType(t) {
		c := make(Agg, len(cells))
		copy(c, cells)
		return c
	}
	return cells[0]
}

// ---- heap

type ObjKind int

const (
	OMem ObjKind = iota
	OMap
	OChan
)

type MapEntry struct {
	Key  Value
	Val  Value
	Live *Term
}

type Object struct {
	owner   int
	Kind    ObjKind
	Cells   []Value
	ElemT   types.Type // for debugging / allocation site typing
	Entries []MapEntry
	KeyT    types.Type
	ValT    types.Type
	// channel
	Buf    []Value
	ChCap  int
	Closed bool
	Label  string
	Site   string
}

func (o *Object) clone(owner int) *Object {
	n := *o
	n.owner = owner
	n.Cells = append([]Value(nil), o.Cells...)
	n.Entries = append([]MapEntry(nil), o.Entries...)
	n.Buf = append([]Value(nil), o.Buf...)
	return &n
}
