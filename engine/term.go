package main

// Term DAG: hash-consed SMT terms with constant folding.
// Sorts: Bool, BitVec(w), Float64.

import (
	"fmt"
	"math"
	"math/big"
	"sort"
	"strings"
)

type SortKind int

const (
	KBool SortKind = iota
	KBV
	KFP
)

type Sort struct {
	K SortKind
	W int
}

func (s Sort) String() string {
	switch s.K {
	case KBool:
		return "Bool"
	case KBV:
		return fmt.Sprintf("(_ BitVec %d)", s.W)
	case KFP:
		return "(_ FloatingPoint 11 53)"
	}
	return "?"
}

var SBool = Sort{KBool, 0}
var SFP = Sort{KFP, 64}

func SBV(w int) Sort { return Sort{KBV, w} }

type Term struct {
	ID    int
	Op    string
	S     Sort
	Args  []*Term
	P1    int
	P2    int
	Name  string // var / uf name
	Const bool
	CV    uint64   // BV const (w<=64) or bool (0/1) or float bits
	CBig  *big.Int // BV const (w>64), non-negative
	HasFP bool
	HasDiv bool
	Depth int
}

type TermFactory struct {
	tab   map[string]*Term
	all   []*Term
	nvars int
	ufs   map[string]string // uf name -> declaration
}

var TF = &TermFactory{tab: map[string]*Term{}, ufs: map[string]string{}}

func (f *TermFactory) mk(t *Term) *Term {
	var sb strings.Builder
	sb.WriteString(t.Op)
	sb.WriteByte('|')
	fmt.Fprintf(&sb, "%d.%d|%d,%d|%s|", t.S.K, t.S.W, t.P1, t.P2, t.Name)
	if t.Const {
		if t.CBig != nil {
			sb.WriteString(t.CBig.String())
		} else {
			fmt.Fprintf(&sb, "%d", t.CV)
		}
	}
	for _, a := range t.Args {
		fmt.Fprintf(&sb, ",%d", a.ID)
	}
	k := sb.String()
	if o, ok := f.tab[k]; ok {
		return o
	}
	t.ID = len(f.all)
	switch t.Op {
	case "bvudiv", "bvurem", "bvsdiv", "bvsrem":
		t.HasDiv = true
	case "bvmul":
		if !t.Args[0].Const && !t.Args[1].Const || t.S.W > 32 {
			t.HasDiv = true
		}
	}
	for _, a := range t.Args {
		if a.HasDiv {
			t.HasDiv = true
		}
		if a.HasFP {
			t.HasFP = true
		}
		if a.Depth+1 > t.Depth {
			t.Depth = a.Depth + 1
		}
	}
	if t.S.K == KFP {
		t.HasFP = true
	}
	f.tab[k] = t
	f.all = append(f.all, t)
	return t
}

func mask(w int) uint64 {
	if w >= 64 {
		return ^uint64(0)
	}
	return (uint64(1) << uint(w)) - 1
}

func bigMask(w int) *big.Int {
	m := new(big.Int).Lsh(big.NewInt(1), uint(w))
	return m.Sub(m, big.NewInt(1))
}

// ---- constructors

func BVConst(w int, v uint64) *Term {
	if w > 64 {
		return TF.mk(&Term{Op: "const", S: SBV(w), Const: true, CBig: new(big.Int).SetUint64(v)})
	}
	return TF.mk(&Term{Op: "const", S: SBV(w), Const: true, CV: v & mask(w)})
}

func BVConstBig(w int, v *big.Int) *Term {
	m := new(big.Int).And(v, bigMask(w)) // two's complement wrap for negatives
	if v.Sign() < 0 {
		mod := new(big.Int).Lsh(big.NewInt(1), uint(w))
		m = new(big.Int).Mod(v, mod)
	}
	if w <= 64 {
		return BVConst(w, m.Uint64())
	}
	return TF.mk(&Term{Op: "const", S: SBV(w), Const: true, CBig: m})
}

func BVConstS(w int, v int64) *Term {
	if w > 64 {
		return BVConstBig(w, big.NewInt(v))
	}
	return BVConst(w, uint64(v))
}

var TTrue = TF.mk(&Term{Op: "const", S: SBool, Const: true, CV: 1})
var TFalse = TF.mk(&Term{Op: "const", S: SBool, Const: true, CV: 0})

func BoolConst(b bool) *Term {
	if b {
		return TTrue
	}
	return TFalse
}

func FPConst(v float64) *Term {
	return TF.mk(&Term{Op: "const", S: SFP, Const: true, CV: math.Float64bits(v)})
}

func NewVar(name string, s Sort) *Term {
	TF.nvars++
	return TF.mk(&Term{Op: "var", S: s, Name: fmt.Sprintf("%s!%d", name, TF.nvars)})
}

func (t *Term) IsTrue() bool  { return t == TTrue }
func (t *Term) IsFalse() bool { return t == TFalse }

// bigVal returns the unsigned value of a BV constant.
func (t *Term) bigVal() *big.Int {
	if t.CBig != nil {
		return t.CBig
	}
	return new(big.Int).SetUint64(t.CV)
}

func (t *Term) sbigVal() *big.Int {
	v := t.bigVal()
	w := t.S.W
	if v.Bit(w-1) == 1 {
		return new(big.Int).Sub(v, new(big.Int).Lsh(big.NewInt(1), uint(w)))
	}
	return v
}

// U64 returns constant value (w<=64).
func (t *Term) U64() uint64 { return t.CV }

func (t *Term) S64() int64 {
	w := t.S.W
	if w >= 64 {
		return int64(t.CV)
	}
	if t.CV&(1<<uint(w-1)) != 0 {
		return int64(t.CV | ^mask(w))
	}
	return int64(t.CV)
}

func sext64(v uint64, w int) int64 {
	if w >= 64 {
		return int64(v)
	}
	if v&(1<<uint(w-1)) != 0 {
		return int64(v | ^mask(w))
	}
	return int64(v)
}

func Not(a *Term) *Term {
	if a.Const {
		return BoolConst(a.CV == 0)
	}
	if a.Op == "not" {
		return a.Args[0]
	}
	return TF.mk(&Term{Op: "not", S: SBool, Args: []*Term{a}})
}

func And(as ...*Term) *Term {
	var out []*Term
	seen := map[int]bool{}
	for _, a := range as {
		if a.IsFalse() {
			return TFalse
		}
		if a.IsTrue() || seen[a.ID] {
			continue
		}
		if a.Op == "and" {
			for _, b := range a.Args {
				if !seen[b.ID] {
					seen[b.ID] = true
					out = append(out, b)
				}
			}
			continue
		}
		seen[a.ID] = true
		out = append(out, a)
	}
	for _, a := range out {
		if a.Op == "not" && seen[a.Args[0].ID] {
			return TFalse
		}
	}
	if len(out) == 0 {
		return TTrue
	}
	if len(out) == 1 {
		return out[0]
	}
	sort.Slice(out, func(i, j int) bool { return out[i].ID < out[j].ID })
	return TF.mk(&Term{Op: "and", S: SBool, Args: out})
}

func Or(as ...*Term) *Term {
	var out []*Term
	seen := map[int]bool{}
	for _, a := range as {
		if a.IsTrue() {
			return TTrue
		}
		if a.IsFalse() || seen[a.ID] {
			continue
		}
		if a.Op == "or" {
			for _, b := range a.Args {
				if !seen[b.ID] {
					seen[b.ID] = true
					out = append(out, b)
				}
			}
			continue
		}
		seen[a.ID] = true
		out = append(out, a)
	}
	for _, a := range out {
		if a.Op == "not" && seen[a.Args[0].ID] {
			return TTrue
		}
	}
	if len(out) == 0 {
		return TFalse
	}
	if len(out) == 1 {
		return out[0]
	}
	sort.Slice(out, func(i, j int) bool { return out[i].ID < out[j].ID })
	return TF.mk(&Term{Op: "or", S: SBool, Args: out})
}

func Implies(a, b *Term) *Term { return Or(Not(a), b) }

func Ite(c, a, b *Term) *Term {
	if c.IsTrue() {
		return a
	}
	if c.IsFalse() {
		return b
	}
	if a == b {
		return a
	}
	if a.S != b.S {
		panic(fmt.Sprintf("ite sort mismatch %v %v", a.S, b.S))
	}
	if a.S.K == KBool {
		if a.IsTrue() && b.IsFalse() {
			return c
		}
		if a.IsFalse() && b.IsTrue() {
			return Not(c)
		}
		if a.IsTrue() {
			return Or(c, b)
		}
		if a.IsFalse() {
			return And(Not(c), b)
		}
		if b.IsTrue() {
			return Or(Not(c), a)
		}
		if b.IsFalse() {
			return And(c, a)
		}
	}
	if c.Op == "not" {
		return Ite(c.Args[0], b, a)
	}
	// ite(c, x, ite(c, y, z)) = ite(c,x,z)
	if b.Op == "ite" && b.Args[0] == c {
		return Ite(c, a, b.Args[2])
	}
	if a.Op == "ite" && a.Args[0] == c {
		return Ite(c, a.Args[1], b)
	}
	if a.S.K == KBV {
		if na, nb, _, ok := narrowPair(a, b, 0); ok {
			return ZExt(Ite(c, na, nb), a.S.W)
		}
	}
	return TF.mk(&Term{Op: "ite", S: a.S, Args: []*Term{c, a, b}})
}

func Eq(a, b *Term) *Term {
	if a == b {
		if a.S.K == KFP {
			// structural equality of FP terms: not NaN-safe; callers use FPEq for Go ==
		}
		return TTrue
	}
	if a.S != b.S {
		panic(fmt.Sprintf("eq sort mismatch %v %v (%s, %s)", a.S, b.S, a.Op, b.Op))
	}
	if a.Const && b.Const {
		if a.CBig != nil || b.CBig != nil {
			return BoolConst(a.bigVal().Cmp(b.bigVal()) == 0)
		}
		return BoolConst(a.CV == b.CV)
	}
	if a.S.K == KBool {
		if a.IsTrue() {
			return b
		}
		if b.IsTrue() {
			return a
		}
		if a.IsFalse() {
			return Not(b)
		}
		if b.IsFalse() {
			return Not(a)
		}
	}
	// eq(ite(c, k1, k2), k) with constants
	if b.Const && a.Op == "ite" && a.Args[1].Const && a.Args[2].Const {
		return Ite(a.Args[0], Eq(a.Args[1], b), Eq(a.Args[2], b))
	}
	if a.Const && b.Op == "ite" && b.Args[1].Const && b.Args[2].Const {
		return Ite(b.Args[0], Eq(b.Args[1], a), Eq(b.Args[2], a))
	}
	if a.S.K == KBV {
		// (x + c1) == (x + c2)  <=>  c1 == c2 ;  (x + c) == x  <=>  c == 0
		{
			ax, ac := a, (*Term)(nil)
			if a.Op == "bvadd" && a.Args[1].Const {
				ax, ac = a.Args[0], a.Args[1]
			}
			bx, bc := b, (*Term)(nil)
			if b.Op == "bvadd" && b.Args[1].Const {
				bx, bc = b.Args[0], b.Args[1]
			}
			if ax == bx && (ac != nil || bc != nil) {
				if ac == nil {
					ac = BVConst(a.S.W, 0)
				}
				if bc == nil {
					bc = BVConst(a.S.W, 0)
				}
				return Eq(ac, bc)
			}
		}
		if na, nb, _, ok := narrowPair(a, b, 0); ok {
			return Eq(na, nb)
		}
		// zext(x) == const that does not fit: false
		if a.Op == "zext" && b.Const && b.CBig == nil && a.Args[0].S.W < 64 && b.CV > mask(a.Args[0].S.W) {
			return TFalse
		}
		if b.Op == "zext" && a.Const && a.CBig == nil && b.Args[0].S.W < 64 && a.CV > mask(b.Args[0].S.W) {
			return TFalse
		}
	}
	if a.ID > b.ID {
		a, b = b, a
	}
	return TF.mk(&Term{Op: "=", S: SBool, Args: []*Term{a, b}})
}

// narrowOf: t == zext(n) for the returned n (k = n's width); constants narrow to their bit length.
func narrowOf(t *Term) (*Term, int, bool) {
	if t.Op == "zext" {
		return t.Args[0], t.Args[0].S.W, true
	}
	if t.Const && t.S.W <= 64 && t.CBig == nil {
		k := 1
		for k < 64 && (t.CV>>uint(k)) != 0 {
			k++
		}
		if k < t.S.W {
			return BVConst(k, t.CV), k, true
		}
	}
	return nil, 0, false
}

func narrowPair(a, b *Term, extra int) (*Term, *Term, int, bool) {
	if a.Const && b.Const {
		return nil, nil, 0, false
	}
	na, ka, ok1 := narrowOf(a)
	nb, kb, ok2 := narrowOf(b)
	if !ok1 || !ok2 {
		return nil, nil, 0, false
	}
	k := ka
	if kb > k {
		k = kb
	}
	k += extra
	if k >= a.S.W {
		return nil, nil, 0, false
	}
	return ZExt(na, k), ZExt(nb, k), k, true
}

func bvBin(op string, a, b *Term) *Term {
	if a.S != b.S || a.S.K != KBV {
		panic(fmt.Sprintf("bv %s sort mismatch %v %v", op, a.S, b.S))
	}
	w := a.S.W
	switch op {
	case "bvadd":
		if na, nb, _, ok := narrowPair(a, b, 1); ok {
			return ZExt(bvBin(op, na, nb), w)
		}
	case "bvand", "bvor", "bvxor", "bvudiv", "bvurem":
		if na, nb, _, ok := narrowPair(a, b, 0); ok {
			return ZExt(bvBin(op, na, nb), w)
		}
	case "bvsdiv", "bvsrem":
		// both operands zero-extended: non-negative, so signed == unsigned
		if na, nb, _, ok := narrowPair(a, b, 0); ok && !(b.Const && b.CV == 0) {
			uop := "bvudiv"
			if op == "bvsrem" {
				uop = "bvurem"
			}
			return ZExt(bvBin(uop, na, nb), w)
		}
	case "bvmul":
		if !(a.Const && b.Const) {
			na, ka, ok1 := narrowOf(a)
			nb, kb, ok2 := narrowOf(b)
			if ok1 && ok2 && ka+kb < w {
				return ZExt(bvBin(op, ZExt(na, ka+kb), ZExt(nb, ka+kb)), w)
			}
		}
	}
	if a.Const && b.Const {
		if w > 64 {
			if r := foldBig(op, a, b); r != nil {
				return r
			}
		} else if r, ok := fold64(op, a.CV, b.CV, w); ok {
			return BVConst(w, r)
		}
	}
	// unsigned division / remainder by a power of two: shift / mask (no division for the solver)
	if (op == "bvudiv" || op == "bvurem") && !a.Const && b.Const && b.CBig == nil && w <= 64 && b.CV != 0 && b.CV&(b.CV-1) == 0 {
		k := uint64(0)
		for b.CV>>k != 1 {
			k++
		}
		if op == "bvudiv" {
			return bvBin("bvlshr", a, BVConst(w, k))
		}
		return bvBin("bvand", a, BVConst(w, b.CV-1))
	}
	zero := func(t *Term) bool { return t.Const && t.CBig == nil && t.CV == 0 || t.Const && t.CBig != nil && t.CBig.Sign() == 0 }
	ones := func(t *Term) bool { return t.Const && t.CBig == nil && t.CV == mask(w) && w <= 64 }
	switch op {
	case "bvadd":
		if zero(a) {
			return b
		}
		if zero(b) {
			return a
		}
		// (x + c1) + c2
		if b.Const && a.Op == "bvadd" && a.Args[1].Const {
			return bvBin("bvadd", a.Args[0], bvBin("bvadd", a.Args[1], b))
		}
		if a.Const && !b.Const {
			a, b = b, a
		}
	case "bvsub":
		if zero(b) {
			return a
		}
		if a == b {
			return BVConst(w, 0)
		}
		// (x + c1) - (x + c2) = c1 - c2 ; (x + c) - x = c ; x - (x + c) = -c
		{
			ax, ac := a, BVConst(w, 0)
			if a.Op == "bvadd" && a.Args[1].Const {
				ax, ac = a.Args[0], a.Args[1]
			}
			bx, bc := b, BVConst(w, 0)
			if b.Op == "bvadd" && b.Args[1].Const {
				bx, bc = b.Args[0], b.Args[1]
			}
			if ax == bx && !(a.Const || b.Const) {
				return bvBin("bvsub", ac, bc)
			}
		}
		if b.Const {
			return bvBin("bvadd", a, BVNeg(b))
		}
	case "bvmul":
		if zero(a) || zero(b) {
			return BVConst(w, 0)
		}
		if a.Const && a.CBig == nil && a.CV == 1 {
			return b
		}
		if b.Const && b.CBig == nil && b.CV == 1 {
			return a
		}
		if a.Const && !b.Const {
			a, b = b, a
		}
	case "bvand":
		if zero(a) || zero(b) {
			return BVConst(w, 0)
		}
		if ones(a) {
			return b
		}
		if ones(b) {
			return a
		}
		if a == b {
			return a
		}
		if a.Const && !b.Const {
			a, b = b, a
		}
	case "bvor":
		if zero(a) {
			return b
		}
		if zero(b) {
			return a
		}
		if a == b {
			return a
		}
		if a.Const && !b.Const {
			a, b = b, a
		}
	case "bvxor":
		if zero(a) {
			return b
		}
		if zero(b) {
			return a
		}
		if a == b {
			return BVConst(w, 0)
		}
		if a.Const && !b.Const {
			a, b = b, a
		}
	case "bvshl", "bvlshr", "bvashr":
		if zero(b) {
			return a
		}
		if zero(a) {
			return a
		}
		if b.Const && b.CBig == nil && w <= 64 {
			k := int(b.CV)
			if b.CV >= uint64(w) {
				if op != "bvashr" {
					return BVConst(w, 0)
				}
			} else if op == "bvshl" {
				return Concat(Extract(w-1-k, 0, a), BVConst(k, 0))
			} else if op == "bvlshr" {
				return ZExt(Extract(w-1, k, a), w)
			}
		}
	case "bvudiv", "bvurem":
		if b.Const && b.CBig == nil && b.CV != 0 && b.CV&(b.CV-1) == 0 {
			k := 0
			for (uint64(1) << uint(k)) != b.CV {
				k++
			}
			if op == "bvurem" {
				if k == 0 {
					return BVConst(w, 0)
				}
				return ZExt(Extract(k-1, 0, a), w)
			}
			if k == 0 {
				return a
			}
			return ZExt(Extract(w-1, k, a), w)
		}
	}
	return TF.mk(&Term{Op: op, S: a.S, Args: []*Term{a, b}})
}

func fold64(op string, x, y uint64, w int) (uint64, bool) {
	m := mask(w)
	switch op {
	case "bvadd":
		return (x + y) & m, true
	case "bvsub":
		return (x - y) & m, true
	case "bvmul":
		return (x * y) & m, true
	case "bvand":
		return x & y, true
	case "bvor":
		return x | y, true
	case "bvxor":
		return x ^ y, true
	case "bvudiv":
		if y == 0 {
			return m, true
		}
		return x / y, true
	case "bvurem":
		if y == 0 {
			return x, true
		}
		return x % y, true
	case "bvsdiv":
		sx, sy := sext64(x, w), sext64(y, w)
		if sy == 0 {
			if sx < 0 {
				return 1, true
			}
			return m, true
		}
		if sy == -1 {
			return uint64(-sx) & m, true
		}
		return uint64(sx/sy) & m, true
	case "bvsrem":
		sx, sy := sext64(x, w), sext64(y, w)
		if sy == 0 {
			return x, true
		}
		if sy == -1 {
			return 0, true
		}
		return uint64(sx%sy) & m, true
	case "bvshl":
		if y >= uint64(w) {
			return 0, true
		}
		return (x << y) & m, true
	case "bvlshr":
		if y >= uint64(w) {
			return 0, true
		}
		return x >> y, true
	case "bvashr":
		sx := sext64(x, w)
		if y >= uint64(w) {
			if sx < 0 {
				return m, true
			}
			return 0, true
		}
		return uint64(sx>>y) & m, true
	}
	return 0, false
}

func foldBig(op string, a, b *Term) *Term {
	w := a.S.W
	x, y := a.bigVal(), b.bigVal()
	r := new(big.Int)
	switch op {
	case "bvadd":
		r.Add(x, y)
	case "bvsub":
		r.Sub(x, y)
	case "bvmul":
		r.Mul(x, y)
	case "bvand":
		r.And(x, y)
	case "bvor":
		r.Or(x, y)
	case "bvxor":
		r.Xor(x, y)
	case "bvshl":
		if y.Cmp(big.NewInt(int64(w))) >= 0 {
			return BVConst(w, 0)
		}
		r.Lsh(x, uint(y.Uint64()))
	case "bvlshr":
		if y.Cmp(big.NewInt(int64(w))) >= 0 {
			return BVConst(w, 0)
		}
		r.Rsh(x, uint(y.Uint64()))
	case "bvsdiv":
		sx, sy := a.sbigVal(), b.sbigVal()
		if sy.Sign() == 0 {
			return nil
		}
		r.Quo(sx, sy)
	case "bvsrem":
		sx, sy := a.sbigVal(), b.sbigVal()
		if sy.Sign() == 0 {
			return nil
		}
		r.Rem(sx, sy)
	case "bvudiv":
		if y.Sign() == 0 {
			return nil
		}
		r.Quo(x, y)
	case "bvurem":
		if y.Sign() == 0 {
			return nil
		}
		r.Rem(x, y)
	default:
		return nil
	}
	return BVConstBig(w, r)
}

func BVAdd(a, b *Term) *Term  { return bvBin("bvadd", a, b) }
func BVSub(a, b *Term) *Term  { return bvBin("bvsub", a, b) }
func BVMul(a, b *Term) *Term  { return bvBin("bvmul", a, b) }
func BVAnd(a, b *Term) *Term  { return bvBin("bvand", a, b) }
func BVOr(a, b *Term) *Term   { return bvBin("bvor", a, b) }
func BVXor(a, b *Term) *Term  { return bvBin("bvxor", a, b) }
func BVUDiv(a, b *Term) *Term { return bvBin("bvudiv", a, b) }
func BVURem(a, b *Term) *Term { return bvBin("bvurem", a, b) }
func BVSDiv(a, b *Term) *Term { return bvBin("bvsdiv", a, b) }
func BVSRem(a, b *Term) *Term { return bvBin("bvsrem", a, b) }
func BVShl(a, b *Term) *Term  { return bvBin("bvshl", a, b) }
func BVLshr(a, b *Term) *Term { return bvBin("bvlshr", a, b) }
func BVAshr(a, b *Term) *Term { return bvBin("bvashr", a, b) }

func BVNeg(a *Term) *Term {
	if a.Const {
		if a.CBig != nil {
			return BVConstBig(a.S.W, new(big.Int).Neg(a.CBig))
		}
		return BVConst(a.S.W, -a.CV)
	}
	return TF.mk(&Term{Op: "bvneg", S: a.S, Args: []*Term{a}})
}

func BVNot(a *Term) *Term {
	if a.Const {
		if a.CBig != nil {
			return BVConstBig(a.S.W, new(big.Int).Xor(a.CBig, bigMask(a.S.W)))
		}
		return BVConst(a.S.W, ^a.CV)
	}
	if a.Op == "bvnot" {
		return a.Args[0]
	}
	return TF.mk(&Term{Op: "bvnot", S: a.S, Args: []*Term{a}})
}

func bvCmp(op string, a, b *Term) *Term {
	if a.S != b.S || a.S.K != KBV {
		panic(fmt.Sprintf("bvcmp %s sort mismatch %v %v", op, a.S, b.S))
	}
	if na, nb, _, ok := narrowPair(a, b, 0); ok {
		// both operands are zero-extended: non-negative, signed == unsigned
		uop := op
		if op == "bvslt" {
			uop = "bvult"
		} else if op == "bvsle" {
			uop = "bvule"
		}
		return bvCmp(uop, na, nb)
	}
	if a.Const && b.Const {
		var c int
		switch op {
		case "bvult", "bvule":
			c = a.bigVal().Cmp(b.bigVal())
		default:
			c = a.sbigVal().Cmp(b.sbigVal())
		}
		switch op {
		case "bvult", "bvslt":
			return BoolConst(c < 0)
		default:
			return BoolConst(c <= 0)
		}
	}
	if a == b {
		return BoolConst(op == "bvule" || op == "bvsle")
	}
	if op == "bvult" && b.Const && b.CBig == nil && b.CV == 0 {
		return TFalse
	}
	if op == "bvule" && a.Const && a.CBig == nil && a.CV == 0 {
		return TTrue
	}
	// zero_extend(x) <u const where const > max(x)
	if (op == "bvult" || op == "bvule") && b.Const && b.CBig == nil && a.Op == "zext" {
		iw := a.Args[0].S.W
		if iw < 64 && b.CV > mask(iw) {
			return TTrue
		}
	}
	return TF.mk(&Term{Op: op, S: SBool, Args: []*Term{a, b}})
}

func BVUlt(a, b *Term) *Term { return bvCmp("bvult", a, b) }
func BVUle(a, b *Term) *Term { return bvCmp("bvule", a, b) }
func BVSlt(a, b *Term) *Term { return bvCmp("bvslt", a, b) }
func BVSle(a, b *Term) *Term { return bvCmp("bvsle", a, b) }

func Extract(hi, lo int, a *Term) *Term {
	w := hi - lo + 1
	if lo == 0 && w == a.S.W {
		return a
	}
	if a.Const {
		v := new(big.Int).Rsh(a.bigVal(), uint(lo))
		return BVConstBig(w, v.And(v, bigMask(w)))
	}
	if a.Op == "zext" || a.Op == "sext" {
		in := a.Args[0]
		if hi < in.S.W {
			return Extract(hi, lo, in)
		}
		if a.Op == "zext" && lo >= in.S.W {
			return BVConst(w, 0)
		}
	}
	if a.Op == "extract" {
		return Extract(hi+a.P2, lo+a.P2, a.Args[0])
	}
	if a.Op == "concat" {
		lw := a.Args[1].S.W
		if hi < lw {
			return Extract(hi, lo, a.Args[1])
		}
		if lo >= lw {
			return Extract(hi-lw, lo-lw, a.Args[0])
		}
	}
	if a.Op == "ite" && (a.Args[1].Const || a.Args[2].Const) {
		return Ite(a.Args[0], Extract(hi, lo, a.Args[1]), Extract(hi, lo, a.Args[2]))
	}
	// low bits of add/sub/mul/and/or/xor distribute over truncation
	if lo == 0 {
		switch a.Op {
		case "bvadd", "bvmul", "bvand", "bvor", "bvxor":
			if a.Args[0].Op == "zext" || a.Args[0].Op == "sext" || a.Args[0].Const || a.Args[1].Op == "zext" || a.Args[1].Op == "sext" || a.Args[1].Const {
				return bvBin(a.Op, Extract(hi, 0, a.Args[0]), Extract(hi, 0, a.Args[1]))
			}
		}
	}
	return TF.mk(&Term{Op: "extract", S: SBV(w), Args: []*Term{a}, P1: hi, P2: lo})
}

func ZExt(a *Term, w int) *Term {
	if a.S.W == w {
		return a
	}
	if a.S.W > w {
		return Extract(w-1, 0, a)
	}
	if a.Const {
		return BVConstBig(w, a.bigVal())
	}
	if a.Op == "zext" {
		return ZExt(a.Args[0], w)
	}
	return TF.mk(&Term{Op: "zext", S: SBV(w), Args: []*Term{a}, P1: w - a.S.W})
}

func SExt(a *Term, w int) *Term {
	if a.S.W == w {
		return a
	}
	if a.S.W > w {
		return Extract(w-1, 0, a)
	}
	if a.Const {
		return BVConstBig(w, a.sbigVal())
	}
	if a.Op == "zext" {
		return ZExt(a.Args[0], w)
	}
	return TF.mk(&Term{Op: "sext", S: SBV(w), Args: []*Term{a}, P1: w - a.S.W})
}

func Concat(hi, lo *Term) *Term {
	w := hi.S.W + lo.S.W
	if hi.Const && lo.Const {
		v := new(big.Int).Lsh(hi.bigVal(), uint(lo.S.W))
		v.Or(v, lo.bigVal())
		return BVConstBig(w, v)
	}
	if hi.Const && hi.bigVal().Sign() == 0 {
		return ZExt(lo, w)
	}
	return TF.mk(&Term{Op: "concat", S: SBV(w), Args: []*Term{hi, lo}})
}

// ---- floating point

func fpBin(op string, a, b *Term) *Term {
	if a.Const && b.Const {
		x, y := math.Float64frombits(a.CV), math.Float64frombits(b.CV)
		switch op {
		case "fp.add":
			return FPConst(x + y)
		case "fp.sub":
			return FPConst(x - y)
		case "fp.mul":
			return FPConst(x * y)
		case "fp.div":
			return FPConst(x / y)
		}
	}
	return TF.mk(&Term{Op: op, S: SFP, Args: []*Term{a, b}})
}

func FPAdd(a, b *Term) *Term { return fpBin("fp.add", a, b) }
func FPSub(a, b *Term) *Term { return fpBin("fp.sub", a, b) }
func FPMul(a, b *Term) *Term { return fpBin("fp.mul", a, b) }
func FPDiv(a, b *Term) *Term { return fpBin("fp.div", a, b) }

func FPNeg(a *Term) *Term {
	if a.Const {
		return FPConst(-math.Float64frombits(a.CV))
	}
	return TF.mk(&Term{Op: "fp.neg", S: SFP, Args: []*Term{a}})
}
func FPAbs(a *Term) *Term {
	if a.Const {
		return FPConst(math.Abs(math.Float64frombits(a.CV)))
	}
	return TF.mk(&Term{Op: "fp.abs", S: SFP, Args: []*Term{a}})
}
func FPSqrt(a *Term) *Term {
	if a.Const {
		return FPConst(math.Sqrt(math.Float64frombits(a.CV)))
	}
	return TF.mk(&Term{Op: "fp.sqrt", S: SFP, Args: []*Term{a}})
}

// FPRound: mode "RTP" (ceil), "RTN" (floor), "RTZ" (trunc)
func FPRound(mode string, a *Term) *Term {
	if a.Const {
		x := math.Float64frombits(a.CV)
		switch mode {
		case "RTP":
			return FPConst(math.Ceil(x))
		case "RTN":
			return FPConst(math.Floor(x))
		case "RTZ":
			return FPConst(math.Trunc(x))
		}
	}
	return TF.mk(&Term{Op: "fp.round", S: SFP, Args: []*Term{a}, Name: mode})
}

func fpCmp(op string, a, b *Term) *Term {
	if a.Const && b.Const {
		x, y := math.Float64frombits(a.CV), math.Float64frombits(b.CV)
		switch op {
		case "fp.lt":
			return BoolConst(x < y)
		case "fp.leq":
			return BoolConst(x <= y)
		case "fp.eq":
			return BoolConst(x == y)
		}
	}
	return TF.mk(&Term{Op: op, S: SBool, Args: []*Term{a, b}})
}
func FPLt(a, b *Term) *Term  { return fpCmp("fp.lt", a, b) }
func FPLe(a, b *Term) *Term  { return fpCmp("fp.leq", a, b) }
func FPEq(a, b *Term) *Term  { return fpCmp("fp.eq", a, b) }
func FPIsNaN(a *Term) *Term {
	if a.Const {
		return BoolConst(math.IsNaN(math.Float64frombits(a.CV)))
	}
	return TF.mk(&Term{Op: "fp.isNaN", S: SBool, Args: []*Term{a}})
}
func FPIsInf(a *Term) *Term {
	if a.Const {
		return BoolConst(math.IsInf(math.Float64frombits(a.CV), 0))
	}
	return TF.mk(&Term{Op: "fp.isInfinite", S: SBool, Args: []*Term{a}})
}

// FPFromSBV / FPFromUBV: integer -> float64 (RNE)
func FPFromSBV(a *Term) *Term {
	if a.Const && a.S.W <= 64 {
		return FPConst(float64(a.S64()))
	}
	return TF.mk(&Term{Op: "to_fp_s", S: SFP, Args: []*Term{a}})
}
func FPFromUBV(a *Term) *Term {
	if a.Const && a.S.W <= 64 {
		return FPConst(float64(a.CV))
	}
	return TF.mk(&Term{Op: "to_fp_u", S: SFP, Args: []*Term{a}})
}

// FPToSBVRaw: SMT fp.to_sbv RTZ (unspecified when out of range) - callers guard.
func FPToSBVRaw(a *Term, w int) *Term {
	return TF.mk(&Term{Op: "fp.to_sbv", S: SBV(w), Args: []*Term{a}, P1: w})
}

// FPFromBits: reinterpret 64-bit BV as float64
func FPFromBits(a *Term) *Term {
	if a.Const {
		return FPConst(math.Float64frombits(a.CV))
	}
	return TF.mk(&Term{Op: "to_fp_bits", S: SFP, Args: []*Term{a}})
}

// UF application
func UFApp(name string, ret Sort, args ...*Term) *Term {
	if _, ok := TF.ufs[name]; !ok {
		var as []string
		for _, a := range args {
			as = append(as, a.S.String())
		}
		TF.ufs[name] = fmt.Sprintf("(declare-fun %s (%s) %s)", name, strings.Join(as, " "), ret.String())
	}
	return TF.mk(&Term{Op: "uf", S: ret, Args: args, Name: name})
}

// ---- printing

func (t *Term) constSMT() string {
	switch t.S.K {
	case KBool:
		if t.CV != 0 {
			return "true"
		}
		return "false"
	case KBV:
		if t.S.W%4 == 0 {
			s := t.bigVal().Text(16)
			for len(s) < t.S.W/4 {
				s = "0" + s
			}
			return "#x" + s
		}
		s := t.bigVal().Text(2)
		for len(s) < t.S.W {
			s = "0" + s
		}
		return "#b" + s
	case KFP:
		b := t.CV
		return fmt.Sprintf("(fp #b%b #b%011b #b%052b)", b>>63, (b>>52)&0x7ff, b&((1<<52)-1))
	}
	return "?"
}

func (t *Term) ref() string {
	if t.Const {
		return t.constSMT()
	}
	if t.Op == "var" {
		return "|" + t.Name + "|"
	}
	return fmt.Sprintf("t%d", t.ID)
}

// body prints the defining expression of t in terms of refs of its args.
func (t *Term) body() string {
	a := func(i int) string { return t.Args[i].ref() }
	switch t.Op {
	case "not", "bvneg", "bvnot", "fp.neg", "fp.abs", "fp.isNaN", "fp.isInfinite":
		return fmt.Sprintf("(%s %s)", t.Op, a(0))
	case "and", "or":
		var sb strings.Builder
		sb.WriteString("(" + t.Op)
		for i := range t.Args {
			sb.WriteString(" " + a(i))
		}
		sb.WriteString(")")
		return sb.String()
	case "ite":
		return fmt.Sprintf("(ite %s %s %s)", a(0), a(1), a(2))
	case "=", "bvadd", "bvsub", "bvmul", "bvand", "bvor", "bvxor", "bvudiv", "bvurem", "bvsdiv", "bvsrem", "bvshl", "bvlshr", "bvashr",
		"bvult", "bvule", "bvslt", "bvsle", "concat", "fp.lt", "fp.leq", "fp.eq":
		return fmt.Sprintf("(%s %s %s)", t.Op, a(0), a(1))
	case "fp.add", "fp.sub", "fp.mul", "fp.div":
		return fmt.Sprintf("(%s RNE %s %s)", t.Op, a(0), a(1))
	case "fp.sqrt":
		return fmt.Sprintf("(fp.sqrt RNE %s)", a(0))
	case "fp.round":
		return fmt.Sprintf("(fp.roundToIntegral %s %s)", t.Name, a(0))
	case "extract":
		return fmt.Sprintf("((_ extract %d %d) %s)", t.P1, t.P2, a(0))
	case "zext":
		return fmt.Sprintf("((_ zero_extend %d) %s)", t.P1, a(0))
	case "sext":
		return fmt.Sprintf("((_ sign_extend %d) %s)", t.P1, a(0))
	case "to_fp_s":
		return fmt.Sprintf("((_ to_fp 11 53) RNE %s)", a(0))
	case "to_fp_u":
		return fmt.Sprintf("((_ to_fp_unsigned 11 53) RNE %s)", a(0))
	case "fp.to_sbv":
		return fmt.Sprintf("((_ fp.to_sbv %d) RTZ %s)", t.P1, a(0))
	case "to_fp_bits":
		return fmt.Sprintf("((_ to_fp 11 53) %s)", a(0))
	case "uf":
		var sb strings.Builder
		sb.WriteString("(" + t.Name)
		for i := range t.Args {
			sb.WriteString(" " + a(i))
		}
		sb.WriteString(")")
		return sb.String()
	}
	panic("body: unknown op " + t.Op)
}

// ---- evaluation under a model (BV/Bool only; FP & UF -> not evaluable)

type Model map[*Term]*Term // var -> const term

func (m Model) Eval(t *Term, memo map[*Term]*Term) *Term {
	if t.Const {
		return t
	}
	if r, ok := memo[t]; ok {
		return r
	}
	var r *Term
	switch t.Op {
	case "var":
		r = m[t]
		if r == nil {
			// unconstrained: default 0
			switch t.S.K {
			case KBool:
				r = TFalse
			case KBV:
				r = BVConst(t.S.W, 0)
			default:
				r = nil
			}
		}
	case "uf":
		r = nil
	default:
		args := make([]*Term, len(t.Args))
		ok := true
		for i, a := range t.Args {
			args[i] = m.Eval(a, memo)
			if args[i] == nil {
				ok = false
			}
		}
		// short-circuit for ite/and/or with nil sub-results
		if t.Op == "ite" && args[0] != nil {
			if args[0].IsTrue() {
				r = args[1]
			} else {
				r = args[2]
			}
		} else if ok {
			r = rebuild(t, args)
			if !r.Const {
				r = nil
			}
		}
	}
	memo[t] = r
	return r
}

func rebuild(t *Term, args []*Term) *Term {
	switch t.Op {
	case "not":
		return Not(args[0])
	case "and":
		return And(args...)
	case "or":
		return Or(args...)
	case "ite":
		return Ite(args[0], args[1], args[2])
	case "=":
		return Eq(args[0], args[1])
	case "bvadd", "bvsub", "bvmul", "bvand", "bvor", "bvxor", "bvudiv", "bvurem", "bvsdiv", "bvsrem", "bvshl", "bvlshr", "bvashr":
		return bvBin(t.Op, args[0], args[1])
	case "bvult", "bvule", "bvslt", "bvsle":
		return bvCmp(t.Op, args[0], args[1])
	case "bvneg":
		return BVNeg(args[0])
	case "bvnot":
		return BVNot(args[0])
	case "extract":
		return Extract(t.P1, t.P2, args[0])
	case "zext":
		return ZExt(args[0], t.S.W)
	case "sext":
		return SExt(args[0], t.S.W)
	case "concat":
		return Concat(args[0], args[1])
	case "fp.add", "fp.sub", "fp.mul", "fp.div":
		return fpBin(t.Op, args[0], args[1])
	case "fp.lt", "fp.leq", "fp.eq":
		return fpCmp(t.Op, args[0], args[1])
	case "fp.neg":
		return FPNeg(args[0])
	case "fp.abs":
		return FPAbs(args[0])
	case "fp.sqrt":
		return FPSqrt(args[0])
	case "fp.isNaN":
		return FPIsNaN(args[0])
	case "fp.isInfinite":
		return FPIsInf(args[0])
	case "fp.round":
		return FPRound(t.Name, args[0])
	case "to_fp_s":
		return FPFromSBV(args[0])
	case "to_fp_u":
		return FPFromUBV(args[0])
	case "to_fp_bits":
		return FPFromBits(args[0])
	case "fp.to_sbv":
		if args[0].Const {
			x := math.Float64frombits(args[0].CV)
			if !math.IsNaN(x) && x > -9.3e18 && x < 9.3e18 {
				return BVConstS(t.P1, int64(x))
			}
		}
		return TF.mk(&Term{Op: "fp.to_sbv", S: t.S, Args: args, P1: t.P1})
	}
	return TF.mk(&Term{Op: t.Op, S: t.S, Args: args, P1: t.P1, P2: t.P2, Name: t.Name})
}

// Vars collects variables of terms.
func CollectVars(ts []*Term, seen map[*Term]bool, out *[]*Term) {
	var rec func(t *Term)
	rec = func(t *Term) {
		if seen[t] {
			return
		}
		seen[t] = true
		if t.Op == "var" {
			*out = append(*out, t)
		}
		for _, a := range t.Args {
			rec(a)
		}
	}
	for _, t := range ts {
		rec(t)
	}
}
