#!/usr/bin/env python3
# Generates MANIFEST.json from checks.py (claimed) and NOT_APPLICABLE below.
import json, sys, os
sys.path.insert(0, os.path.dirname(os.path.abspath(__file__)))
from checks import CHECKS, NOT_APPLICABLE
props = [json.loads(l) for l in open(os.path.join(os.path.dirname(os.path.abspath(__file__)), 'properties.jsonl'))]
ids = [p['id'] for p in props]
checks = []
for pid in ids:
    if pid not in CHECKS:
        continue
    c = CHECKS[pid]
    checks.append(dict(
        property_id=pid,
        quick_cmd="./check %s --tier quick" % pid,
        thorough_cmd="./check %s --tier thorough" % pid,
        evidence_file="/verif/evidence/%s.json" % pid,
        replay_cmd_template="./check %s --replay {path}" % pid,
        engine="gosym",
        level_claimed=dict(category="model_checking", text=c.get("level_text", "Bounded symbolic execution of the real go/ssa code; an SMT solver decides every assertion for all symbolic inputs inside the stated bounds; counterexamples are replayed natively before being reported."), design_ref=c.get("design_ref", "DESIGN.md §5 " + pid)),
        level_note=c.get("level_note", "Trusted: go/ssa, the gosym executor and its stubs (DESIGN.md §3.5), z3/cvc5, the harness reference models. Bounds: " + str(c.get("bounds", {}).get("quick", ""))),
        technique="solver-based bounded symbolic execution of go/ssa (SMT: z3/cvc5), native replay of counterexamples",
    ))
na = [dict(property_id=p, reason=r) for p, r in NOT_APPLICABLE.items() if p not in CHECKS]
for pid in ids:
    if pid not in CHECKS and pid not in NOT_APPLICABLE:
        na.append(dict(property_id=pid, reason="no check registered yet (work in progress)"))
m = dict(
    version=1,
    setup_cmd="cd /verif/engine && . ./env.sh && go build -o /verif/bin/gosym .",
    hooks=dict(guard="verif", enable="harness files carry //go:build verif and are injected with go/packages Overlay (engine) and go test -tags verif -overlay (native replay); nothing is committed to /repo for hooks",
               baseline_off_cmd="cd /repo && . /w/out/goenv.sh && go test $(gomodflag) -vet=off -count=1 -timeout 25m ./...", source_commits=[], add_only=True),
    engines=[dict(name="gosym", path="/verif/engine", serves_properties=[c['property_id'] for c in checks], kind_free_text="go/ssa symbolic executor -> SMT-LIB2 (z3 4.8.12 for bit-vectors, cvc5 1.0 for floating point), native replay via go test -overlay")],
    checks=checks,
    not_applicable=na,
    notes="See DESIGN.md. exit 2 from a check means the check itself was inconclusive (solver unknown, unwind bound, unsupported construct, engine/native disagreement) and is never folded into a pass.",
)
json.dump(m, open(os.path.join(os.path.dirname(os.path.abspath(__file__)), 'MANIFEST.json'), 'w'), indent=1)
print("claimed:", [c['property_id'] for c in checks], "na:", [n['property_id'] for n in na])
